//! C13 — translated AIR constraints evaluate like the native constraint folder.
//!
//! Monitor: random small AIRs whose `eval` replays a random DAG (IR below) are pushed through the
//! repo's own path (`p3_batch_stark::symbolic::get_symbolic_constraints` inside
//! `RecursiveAir::eval_folded_circuit`, i.e. `SymbolicCompiler::compile_base/compile_ext` + alpha
//! folding); the circuit is run on random opened values / selectors / challenges / alpha and the
//! folded target is compared with the accumulator of the native
//! `VerifierConstraintFolderWithLookups` (wrapping `p3_uni_stark::VerifierConstraintFolder`) driven
//! by `LogUpGadget::eval_air_and_lookups` on the same AIR and values. A second mode feeds
//! hand-built `SymbolicExpression` DAGs with same-node `Arc` sharing straight into
//! `SymbolicCompiler` (oracle: an independent interpreter of the IR). A third mode runs the real
//! table AIRs of the repo (Const / Public / ALU / Recompose / Poseidon2) the same way.

use std::collections::BTreeSet;
use std::sync::Arc;

use p3_air::{Air, AirBuilder, BaseAir, ExtensionBuilder, PermutationAirBuilder, WindowAccess};
use p3_field::{BasedVectorSpace, Dup, Field, PrimeCharacteristicRing};
use p3r_verif::util::*;
use rand::RngExt;
use rand::rngs::SmallRng;
use serde::{Deserialize, Serialize};
use serde_json::{Value, json};

// ---------------------------------------------------------------------------------------------
// IR of a random AIR
// ---------------------------------------------------------------------------------------------

#[derive(Clone, Debug, Serialize, Deserialize, PartialEq)]
pub enum Leaf {
    Main { row: u8, col: usize },
    Prep { row: u8, col: usize },
    Public(usize),
    Periodic(usize),
    IsFirst,
    IsLast,
    IsTrans,
    Const(u64),
    // extension leaves
    Perm { row: u8, col: usize },
    Chal(usize),
    PermVal(usize),
    ExtConst(Vec<u64>),
}

impl Leaf {
    pub fn is_ext(&self) -> bool {
        matches!(self, Leaf::Perm { .. } | Leaf::Chal(_) | Leaf::PermVal(_) | Leaf::ExtConst(_))
    }
}

/// Reference to an earlier node; `re` = re-evaluate the whole sub-expression from scratch instead
/// of reusing (cloning) the already built value.
#[derive(Clone, Copy, Debug, Serialize, Deserialize, PartialEq)]
pub struct R {
    pub n: usize,
    pub re: bool,
}

#[derive(Clone, Debug, Serialize, Deserialize, PartialEq)]
pub enum Node {
    Leaf(Leaf),
    /// base node used as an extension expression
    Lift(R),
    Add(R, R),
    Sub(R, R),
    Mul(R, R),
    Neg(R),
}

#[derive(Clone, Debug, Serialize, Deserialize, PartialEq)]
pub enum Filter {
    None,
    First,
    Last,
    Trans,
    /// `builder.when(cond)`, cond a base node
    When(R),
    /// `assert_eq(x, y)`, y of the same kind as x
    Eq(R),
    /// `assert_bool(x)` (base only)
    Bool,
}

#[derive(Clone, Debug, Serialize, Deserialize, PartialEq)]
pub struct Cons {
    pub x: R,
    pub filter: Filter,
}

/// Small expression tree used for lookup tuples / multiplicities (base leaves only).
#[derive(Clone, Debug, Serialize, Deserialize, PartialEq)]
pub enum LE {
    L(Leaf),
    Add(Box<LE>, Box<LE>),
    Sub(Box<LE>, Box<LE>),
    Mul(Box<LE>, Box<LE>),
    Neg(Box<LE>),
}

#[derive(Clone, Debug, Serialize, Deserialize, PartialEq)]
pub struct LookupIR {
    pub global: Option<String>,
    pub tuples: Vec<(Vec<LE>, LE)>,
}

#[derive(Clone, Debug, Serialize, Deserialize, PartialEq)]
pub struct AirIR {
    pub main: usize,
    pub prep: usize,
    pub publics: usize,
    pub periodic: usize,
    pub lookups: Vec<LookupIR>,
    pub nodes: Vec<Node>,
    pub cons: Vec<Cons>,
}

impl AirIR {
    pub fn perm_width(&self) -> usize {
        if self.lookups.is_empty() { 0 } else { self.lookups.len() + 1 }
    }
    pub fn n_chal(&self) -> usize {
        2 * self.lookups.len()
    }
    pub fn n_permval(&self) -> usize {
        usize::from(!self.lookups.is_empty())
    }
    /// is node i extension-valued?
    pub fn types(&self) -> Vec<bool> {
        let mut t = Vec::with_capacity(self.nodes.len());
        for n in &self.nodes {
            let e = match n {
                Node::Leaf(l) => l.is_ext(),
                Node::Lift(_) => true,
                Node::Add(a, b) | Node::Sub(a, b) | Node::Mul(a, b) => t[a.n] || t[b.n],
                Node::Neg(a) => t[a.n],
            };
            t.push(e);
        }
        t
    }
    pub fn depths(&self) -> Vec<usize> {
        let mut d: Vec<usize> = Vec::with_capacity(self.nodes.len());
        for n in &self.nodes {
            let v = match n {
                Node::Leaf(_) => 1,
                Node::Lift(a) | Node::Neg(a) => d[a.n] + 1,
                Node::Add(a, b) | Node::Sub(a, b) | Node::Mul(a, b) => d[a.n].max(d[b.n]) + 1,
            };
            d.push(v);
        }
        d
    }
    /// emission order has a base constraint after an extension constraint
    pub fn base_after_ext(&self) -> bool {
        let t = self.types();
        let mut seen_ext = false;
        for c in &self.cons {
            if t[c.x.n] {
                seen_ext = true;
            } else if seen_ext {
                return true;
            }
        }
        // lookups always emit extension constraints after the AIR's own
        false
    }
    /// nodes used more than once (reuse without re-evaluation) or re-evaluated
    pub fn sharing(&self) -> (usize, usize) {
        let mut uses = vec![0usize; self.nodes.len()];
        let mut re = 0;
        let mut visit = |r: &R| {
            if r.re {
                re += 1;
            } else {
                uses[r.n] += 1;
            }
        };
        for n in &self.nodes {
            match n {
                Node::Leaf(_) => {}
                Node::Lift(a) | Node::Neg(a) => visit(a),
                Node::Add(a, b) | Node::Sub(a, b) | Node::Mul(a, b) => {
                    visit(a);
                    visit(b);
                }
            }
        }
        for c in &self.cons {
            visit(&c.x);
            match &c.filter {
                Filter::When(r) | Filter::Eq(r) => visit(r),
                _ => {}
            }
        }
        let shared = uses
            .iter()
            .enumerate()
            .filter(|(i, u)| **u > 1 && !matches!(self.nodes[*i], Node::Leaf(_)))
            .count();
        (shared, re)
    }
    pub fn leaf_kinds(&self) -> BTreeSet<&'static str> {
        let mut s = BTreeSet::new();
        fn k(l: &Leaf) -> &'static str {
            match l {
                Leaf::Main { row: 0, .. } => "main-local",
                Leaf::Main { .. } => "main-next",
                Leaf::Prep { row: 0, .. } => "prep-local",
                Leaf::Prep { .. } => "prep-next",
                Leaf::Public(_) => "public",
                Leaf::Periodic(_) => "periodic",
                Leaf::IsFirst => "is-first",
                Leaf::IsLast => "is-last",
                Leaf::IsTrans => "is-transition",
                Leaf::Const(_) => "const",
                Leaf::Perm { row: 0, .. } => "perm-local",
                Leaf::Perm { .. } => "perm-next",
                Leaf::Chal(_) => "challenge",
                Leaf::PermVal(_) => "perm-value",
                Leaf::ExtConst(_) => "ext-const",
            }
        }
        for n in &self.nodes {
            if let Node::Leaf(l) = n {
                s.insert(k(l));
            }
        }
        for c in &self.cons {
            match c.filter {
                Filter::First => {
                    s.insert("is-first");
                }
                Filter::Last => {
                    s.insert("is-last");
                }
                Filter::Trans => {
                    s.insert("is-transition");
                }
                _ => {}
            }
        }
        s
    }
    /// keep only nodes reachable from the constraints (renumbered)
    pub fn pruned(&self) -> AirIR {
        let mut live = vec![false; self.nodes.len()];
        let mut stack: Vec<usize> = vec![];
        for c in &self.cons {
            stack.push(c.x.n);
            if let Filter::When(r) | Filter::Eq(r) = &c.filter {
                stack.push(r.n);
            }
        }
        while let Some(i) = stack.pop() {
            if live[i] {
                continue;
            }
            live[i] = true;
            match &self.nodes[i] {
                Node::Leaf(_) => {}
                Node::Lift(a) | Node::Neg(a) => stack.push(a.n),
                Node::Add(a, b) | Node::Sub(a, b) | Node::Mul(a, b) => {
                    stack.push(a.n);
                    stack.push(b.n);
                }
            }
        }
        let mut map = vec![usize::MAX; self.nodes.len()];
        let mut nodes = vec![];
        let m = |r: &R, map: &Vec<usize>| R { n: map[r.n], re: r.re };
        for (i, n) in self.nodes.iter().enumerate() {
            if !live[i] {
                continue;
            }
            map[i] = nodes.len();
            nodes.push(match n {
                Node::Leaf(l) => Node::Leaf(l.clone()),
                Node::Lift(a) => Node::Lift(m(a, &map)),
                Node::Neg(a) => Node::Neg(m(a, &map)),
                Node::Add(a, b) => Node::Add(m(a, &map), m(b, &map)),
                Node::Sub(a, b) => Node::Sub(m(a, &map), m(b, &map)),
                Node::Mul(a, b) => Node::Mul(m(a, &map), m(b, &map)),
            });
        }
        let cons = self
            .cons
            .iter()
            .map(|c| Cons {
                x: m(&c.x, &map),
                filter: match &c.filter {
                    Filter::When(r) => Filter::When(m(r, &map)),
                    Filter::Eq(r) => Filter::Eq(m(r, &map)),
                    f => f.clone(),
                },
            })
            .collect();
        AirIR { nodes, cons, ..self.clone() }
    }
}

// ---------------------------------------------------------------------------------------------
// Generator
// ---------------------------------------------------------------------------------------------

fn gen_le(rng: &mut SmallRng, ir: &AirIR, depth: usize) -> LE {
    if depth == 0 || rng.random_range(0..3u32) == 0 {
        let mut opts: Vec<Leaf> = vec![
            Leaf::Main { row: 0, col: rng.random_range(0..ir.main) },
            Leaf::Main { row: rng.random_range(0..2u8), col: rng.random_range(0..ir.main) },
            Leaf::Const(rng.random_range(0..9u64)),
        ];
        if ir.prep > 0 {
            opts.push(Leaf::Prep { row: 0, col: rng.random_range(0..ir.prep) });
        }
        if ir.publics > 0 {
            opts.push(Leaf::Public(rng.random_range(0..ir.publics)));
        }
        return LE::L(pick(rng, &opts).clone());
    }
    let a = Box::new(gen_le(rng, ir, depth - 1));
    match rng.random_range(0..4u32) {
        0 => LE::Add(a, Box::new(gen_le(rng, ir, depth - 1))),
        1 => LE::Sub(a, Box::new(gen_le(rng, ir, depth - 1))),
        2 => LE::Mul(a, Box::new(gen_le(rng, ir, depth - 1))),
        _ => LE::Neg(a),
    }
}

pub fn gen_air(rng: &mut SmallRng, max_nodes: usize, allow_interleave: bool) -> AirIR {
    let mut ir = AirIR {
        main: rng.random_range(1..=6),
        prep: if chance(rng, 1, 3) { 0 } else { rng.random_range(1..=3) },
        publics: rng.random_range(0..=3),
        periodic: rng.random_range(0..=2),
        lookups: vec![],
        nodes: vec![],
        cons: vec![],
    };
    let n_lookups = if chance(rng, 1, 2) { 0 } else { rng.random_range(1..=2usize) };
    for li in 0..n_lookups {
        let w = rng.random_range(1..=3usize);
        let nt = rng.random_range(1..=2usize);
        let tuples = (0..nt)
            .map(|_| ((0..w).map(|_| gen_le(rng, &ir, 2)).collect(), gen_le(rng, &ir, 1)))
            .collect();
        let global = if chance(rng, 1, 2) { Some(format!("bus{}", li % 2)) } else { None };
        ir.lookups.push(LookupIR { global, tuples });
    }
    let want_ext = !ir.lookups.is_empty() || chance(rng, 1, 2);
    let leaf = |rng: &mut SmallRng, ir: &AirIR, ext: bool| -> Leaf {
        if ext {
            let mut o = vec![Leaf::ExtConst((0..8).map(|_| rng.random::<u64>() >> 20).collect())];
            if ir.perm_width() > 0 {
                o.push(Leaf::Perm { row: 0, col: rng.random_range(0..ir.perm_width()) });
                o.push(Leaf::Perm { row: 1, col: rng.random_range(0..ir.perm_width()) });
                o.push(Leaf::Chal(rng.random_range(0..ir.n_chal())));
                o.push(Leaf::PermVal(0));
                o.push(Leaf::Perm { row: 0, col: rng.random_range(0..ir.perm_width()) });
            }
            return pick(rng, &o).clone();
        }
        let mut o = vec![
            Leaf::Main { row: 0, col: rng.random_range(0..ir.main) },
            Leaf::Main { row: 1, col: rng.random_range(0..ir.main) },
            Leaf::IsFirst,
            Leaf::IsLast,
            Leaf::IsTrans,
            Leaf::Const(match rng.random_range(0..4u32) {
                0 => 0,
                1 => 1,
                2 => rng.random_range(2..100),
                _ => rng.random(),
            }),
        ];
        if ir.prep > 0 {
            o.push(Leaf::Prep { row: 0, col: rng.random_range(0..ir.prep) });
            o.push(Leaf::Prep { row: 1, col: rng.random_range(0..ir.prep) });
        }
        if ir.publics > 0 {
            o.push(Leaf::Public(rng.random_range(0..ir.publics)));
        }
        if ir.periodic > 0 {
            o.push(Leaf::Periodic(rng.random_range(0..ir.periodic)));
        }
        pick(rng, &o).clone()
    };
    let n_leaves = rng.random_range(3..=9usize);
    for _ in 0..n_leaves {
        let ext = want_ext && chance(rng, 1, 3);
        let l = leaf(rng, &ir, ext);
        ir.nodes.push(Node::Leaf(l));
    }
    // "deep" AIRs: one long chain reaching the depth bound of 40
    let deep = chance(rng, 1, 6);
    let n_ops = if deep { rng.random_range(34..=44usize) } else { rng.random_range(3..=max_nodes.max(4)) };
    let chainy = deep || chance(rng, 1, 2);
    let mut depth: Vec<usize> = vec![1; ir.nodes.len()];
    let mut tsize: Vec<u64> = vec![1; ir.nodes.len()];
    let mut deg: Vec<u64> = vec![1; ir.nodes.len()];
    let mut ty: Vec<bool> = ir.types();
    for _ in 0..n_ops {
        let len = ir.nodes.len();
        let pick_op = |rng: &mut SmallRng, depth: &Vec<usize>, tsize: &Vec<u64>| -> R {
            let mut n = if deep && chance(rng, 9, 10) {
                len - 1
            } else if chainy && chance(rng, 2, 3) {
                len - 1 - rng.random_range(0..len.min(2))
            } else if chance(rng, 1, 6) {
                rng.random_range(0..n_leaves)
            } else {
                rng.random_range(0..len)
            };
            if depth[n] >= 39 {
                n = rng.random_range(0..n_leaves);
            }
            R { n, re: tsize[n] <= 48 && chance(rng, 1, 6) }
        };
        let a = pick_op(rng, &depth, &tsize);
        let b = pick_op(rng, &depth, &tsize);
        let node = match rng.random_range(0..10u32) {
            0 => Node::Neg(a),
            1 if want_ext && !ty[a.n] => Node::Lift(a),
            2..=4 => Node::Add(a, b),
            5 | 6 => Node::Sub(a, b),
            _ => {
                if deg[a.n].saturating_add(deg[b.n]) > 1 << 16 {
                    Node::Add(a, b)
                } else {
                    Node::Mul(a, b)
                }
            }
        };
        let (d, t, g, e) = match &node {
            Node::Leaf(_) => unreachable!(),
            Node::Lift(x) => (depth[x.n] + 1, tsize[x.n] + 1, deg[x.n], true),
            Node::Neg(x) => (depth[x.n] + 1, tsize[x.n] + 1, deg[x.n], ty[x.n]),
            Node::Add(x, y) | Node::Sub(x, y) => (
                depth[x.n].max(depth[y.n]) + 1,
                tsize[x.n].saturating_add(tsize[y.n]) + 1,
                deg[x.n].max(deg[y.n]),
                ty[x.n] || ty[y.n],
            ),
            Node::Mul(x, y) => (
                depth[x.n].max(depth[y.n]) + 1,
                tsize[x.n].saturating_add(tsize[y.n]) + 1,
                deg[x.n] + deg[y.n],
                ty[x.n] || ty[y.n],
            ),
        };
        ir.nodes.push(node);
        depth.push(d);
        tsize.push(t);
        deg.push(g);
        ty.push(e);
    }
    // constraints
    let len = ir.nodes.len();
    let n_cons = rng.random_range(1..=6usize);
    let mut cons: Vec<Cons> = vec![];
    for k in 0..n_cons {
        let n = if k == 0 { len - 1 } else { len - 1 - rng.random_range(0..len.min(12)) };
        let x = R { n, re: tsize[n] <= 48 && chance(rng, 1, 8) };
        let same: Vec<usize> = (0..len).filter(|j| ty[*j] == ty[n]).collect();
        let bases: Vec<usize> = (0..len).filter(|j| !ty[*j]).collect();
        let filter = match rng.random_range(0..9u32) {
            0 => Filter::First,
            1 => Filter::Last,
            2 => Filter::Trans,
            3 if !bases.is_empty() => Filter::When(R { n: *pick(rng, &bases), re: false }),
            4 => Filter::Eq(R { n: *pick(rng, &same), re: false }),
            5 if !ty[n] => Filter::Bool,
            _ => Filter::None,
        };
        cons.push(Cons { x, filter });
    }
    let interleave = allow_interleave && chance(rng, 1, 8);
    if !interleave {
        // the order every AIR of the repo uses: base constraints first, extension constraints last
        cons.sort_by_key(|c| ty[c.x.n]);
    }
    ir.cons = cons;
    ir
}

// ---------------------------------------------------------------------------------------------
// The AIR replaying an IR through any PermutationAirBuilder
// ---------------------------------------------------------------------------------------------

#[derive(Clone)]
pub struct RandAir {
    pub ir: Arc<AirIR>,
    pub ty: Vec<bool>,
}

impl RandAir {
    pub fn new(ir: AirIR) -> Self {
        let ty = ir.types();
        Self { ir: Arc::new(ir), ty }
    }
}

impl<F: Field> BaseAir<F> for RandAir {
    fn width(&self) -> usize {
        self.ir.main
    }
    fn preprocessed_width(&self) -> usize {
        self.ir.prep
    }
    fn num_public_values(&self) -> usize {
        self.ir.publics
    }
    fn num_periodic_columns(&self) -> usize {
        self.ir.periodic
    }
    fn periodic_columns(&self) -> Vec<Vec<F>> {
        (0..self.ir.periodic).map(|i| vec![F::from_u64(i as u64 + 1), F::from_u64(7 * i as u64 + 3)]).collect()
    }
}

pub enum V<AB: PermutationAirBuilder> {
    B(AB::Expr),
    E(AB::ExprEF),
}

impl<AB: PermutationAirBuilder> V<AB> {
    fn dup(&self) -> Self {
        match self {
            V::B(x) => V::B(x.dup()),
            V::E(x) => V::E(x.dup()),
        }
    }
    fn ext(self) -> AB::ExprEF {
        match self {
            V::B(x) => AB::ExprEF::from(x),
            V::E(x) => x,
        }
    }
}

impl RandAir {
    fn leaf<AB: PermutationAirBuilder>(&self, b: &AB, l: &Leaf) -> V<AB> {
        match l {
            Leaf::Main { row, col } => {
                let m = b.main();
                let v = if *row == 0 { m.current(*col) } else { m.next(*col) }.expect("main col");
                V::B(v.into())
            }
            Leaf::Prep { row, col } => {
                let m = b.preprocessed();
                let v = if *row == 0 { m.current(*col) } else { m.next(*col) }.expect("prep col");
                V::B(v.into())
            }
            Leaf::Public(i) => V::B(b.public_values()[*i].into()),
            Leaf::Periodic(i) => V::B(b.periodic_values()[*i].into()),
            Leaf::IsFirst => V::B(b.is_first_row()),
            Leaf::IsLast => V::B(b.is_last_row()),
            Leaf::IsTrans => V::B(b.is_transition()),
            Leaf::Const(c) => V::B(AB::Expr::from(AB::F::from_u64(*c))),
            Leaf::Perm { row, col } => {
                let m = b.permutation();
                let v = if *row == 0 { m.current(*col) } else { m.next(*col) }.expect("perm col");
                V::E(v.into())
            }
            Leaf::Chal(i) => V::E(b.permutation_randomness()[*i].into()),
            Leaf::PermVal(i) => V::E(b.permutation_values()[*i].clone().into()),
            Leaf::ExtConst(c) => {
                let e = <AB::EF as BasedVectorSpace<AB::F>>::from_basis_coefficients_fn(|i| AB::F::from_u64(c[i % c.len()]));
                V::E(AB::ExprEF::from(e))
            }
        }
    }
    fn bin<AB: PermutationAirBuilder>(op: u8, x: V<AB>, y: V<AB>) -> V<AB> {
        match (x, y) {
            (V::B(x), V::B(y)) => V::B(match op {
                0 => x + y,
                1 => x - y,
                _ => x * y,
            }),
            // extension (op) base through Algebra<Expr>
            (V::E(x), V::B(y)) => V::E(match op {
                0 => x + y,
                1 => x - y,
                _ => x * y,
            }),
            (x, y) => {
                let (x, y) = (x.ext(), y.ext());
                V::E(match op {
                    0 => x + y,
                    1 => x - y,
                    _ => x * y,
                })
            }
        }
    }
    fn node<AB: PermutationAirBuilder>(&self, b: &AB, i: usize, vals: &[V<AB>]) -> V<AB> {
        match &self.ir.nodes[i] {
            Node::Leaf(l) => self.leaf(b, l),
            Node::Lift(a) => V::E(self.get(b, a, vals).ext()),
            Node::Neg(a) => match self.get(b, a, vals) {
                V::B(x) => V::B(-x),
                V::E(x) => V::E(-x),
            },
            Node::Add(x, y) => Self::bin(0, self.get(b, x, vals), self.get(b, y, vals)),
            Node::Sub(x, y) => Self::bin(1, self.get(b, x, vals), self.get(b, y, vals)),
            Node::Mul(x, y) => Self::bin(2, self.get(b, x, vals), self.get(b, y, vals)),
        }
    }
    fn get<AB: PermutationAirBuilder>(&self, b: &AB, r: &R, vals: &[V<AB>]) -> V<AB> {
        if r.re { self.rebuild(b, r.n) } else { vals[r.n].dup() }
    }
    /// build the sub-expression again from its leaves (fresh allocations all the way down)
    fn rebuild<AB: PermutationAirBuilder>(&self, b: &AB, i: usize) -> V<AB> {
        match &self.ir.nodes[i] {
            Node::Leaf(l) => self.leaf(b, l),
            Node::Lift(a) => V::E(self.rebuild(b, a.n).ext()),
            Node::Neg(a) => match self.rebuild(b, a.n) {
                V::B(x) => V::B(-x),
                V::E(x) => V::E(-x),
            },
            Node::Add(x, y) => Self::bin(0, self.rebuild(b, x.n), self.rebuild(b, y.n)),
            Node::Sub(x, y) => Self::bin(1, self.rebuild(b, x.n), self.rebuild(b, y.n)),
            Node::Mul(x, y) => Self::bin(2, self.rebuild(b, x.n), self.rebuild(b, y.n)),
        }
    }
}

impl<AB: PermutationAirBuilder> Air<AB> for RandAir {
    fn eval(&self, b: &mut AB) {
        let mut vals: Vec<V<AB>> = Vec::with_capacity(self.ir.nodes.len());
        for i in 0..self.ir.nodes.len() {
            let v = self.node(b, i, &vals);
            vals.push(v);
        }
        for c in &self.ir.cons {
            let x = self.get(b, &c.x, &vals);
            match x {
                V::B(x) => match &c.filter {
                    Filter::None => b.assert_zero(x),
                    Filter::First => b.when_first_row().assert_zero(x),
                    Filter::Last => b.when_last_row().assert_zero(x),
                    Filter::Trans => b.when_transition().assert_zero(x),
                    Filter::When(r) => match self.get(b, r, &vals) {
                        V::B(c) => b.when(c).assert_zero(x),
                        V::E(_) => b.assert_zero(x),
                    },
                    Filter::Eq(r) => match self.get(b, r, &vals) {
                        V::B(y) => b.assert_eq(x, y),
                        V::E(_) => b.assert_zero(x),
                    },
                    Filter::Bool => b.assert_bool(x),
                },
                V::E(x) => match &c.filter {
                    Filter::None | Filter::Bool => b.assert_zero_ext(x),
                    Filter::First => b.when_first_row().assert_zero_ext(x),
                    Filter::Last => b.when_last_row().assert_zero_ext(x),
                    Filter::Trans => b.when_transition().assert_zero_ext(x),
                    Filter::When(r) => match self.get(b, r, &vals) {
                        V::B(c) => b.when(c).assert_zero_ext(x),
                        V::E(_) => b.assert_zero_ext(x),
                    },
                    Filter::Eq(r) => {
                        let y = self.get(b, r, &vals).ext();
                        b.assert_eq_ext(x, y)
                    }
                },
            }
        }
    }
}

// ---------------------------------------------------------------------------------------------
// Assignment of all opened values / selectors / challenges (as coefficient vectors)
// ---------------------------------------------------------------------------------------------

#[derive(Clone, Debug, Serialize, Deserialize)]
pub struct AsgJ {
    pub sels: Vec<Vec<u64>>,
    pub alpha: Vec<u64>,
    pub publics: Vec<u64>,
    pub main: [Vec<Vec<u64>>; 2],
    pub prep: [Vec<Vec<u64>>; 2],
    pub periodic: Vec<Vec<u64>>,
    pub perm: [Vec<Vec<u64>>; 2],
    pub chal: Vec<Vec<u64>>,
    pub permval: Vec<Vec<u64>>,
}

pub fn gen_asg(rng: &mut SmallRng, d: usize, main: usize, prep: usize, publics: usize, periodic: usize, perm: usize, chal: usize, permval: usize, k: usize) -> AsgJ {
    let e = |rng: &mut SmallRng| -> Vec<u64> {
        match k % 4 {
            // base-field-valued openings
            2 => {
                let mut v = vec![0u64; d];
                v[0] = rng.random();
                v
            }
            _ => (0..d).map(|_| rng.random()).collect(),
        }
    };
    let mut sels: Vec<Vec<u64>> = (0..3).map(|_| e(rng)).collect();
    if k % 4 == 3 {
        // a "row-like" point: selectors 0/1
        sels = vec![vec![1], vec![0], vec![1]].into_iter().map(|mut v| { v.resize(d, 0); v }).collect();
    }
    AsgJ {
        sels,
        alpha: e(rng),
        publics: (0..publics).map(|_| rng.random()).collect(),
        main: [(0..main).map(|_| e(rng)).collect(), (0..main).map(|_| e(rng)).collect()],
        prep: [(0..prep).map(|_| e(rng)).collect(), (0..prep).map(|_| e(rng)).collect()],
        periodic: (0..periodic).map(|_| e(rng)).collect(),
        perm: [(0..perm).map(|_| e(rng)).collect(), (0..perm).map(|_| e(rng)).collect()],
        chal: (0..chal).map(|_| e(rng)).collect(),
        permval: (0..permval).map(|_| e(rng)).collect(),
    }
}

// ---------------------------------------------------------------------------------------------
// Per-configuration body (expects `SC`, `F`, `EF`, `NAME` in scope)
// ---------------------------------------------------------------------------------------------

#[derive(Default)]
pub struct Stats {
    pub leaf_kinds: BTreeSet<&'static str>,
    pub ops: BTreeSet<&'static str>,
    pub nodes: usize,
    pub shared: usize,
}

macro_rules! body {
    () => {
        use std::sync::Arc;

        use hashbrown::{HashMap, HashSet};
        use p3_air::{AirLayout, BaseEntry, BaseLeaf, ExtEntry, ExtLeaf, SymbolicVariable, SymbolicVariableExt};
        use p3_circuit::symbolic::{ColumnsTargets, RowSelectorsTargets, SymbolicCompiler};
        use p3_circuit::{CircuitBuilder, ExprId};
        use p3_field::{BasedVectorSpace, PrimeCharacteristicRing, PrimeField64};
        use p3_lookup::folder::VerifierConstraintFolderWithLookups;
        use p3_lookup::{Kind, LogUpGadget, Lookup, LookupProtocol};
        use p3_matrix::dense::RowMajorMatrixView;
        use p3_matrix::stack::VerticalPair;
        use p3_recursion::traits::LookupMetadata;
        use p3_recursion::{RecursiveAir, RecursiveLagrangeSelectors};
        use p3_uni_stark::VerifierConstraintFolder;
        use p3r_verif::util::*;
        use rand::RngExt;
        use rand::rngs::SmallRng;
        use serde_json::{Value, json};

        use super::*;

        pub type SymB = p3_air::SymbolicExpression<F>;
        pub type SymE = p3_air::SymbolicExpressionExt<F, EF>;
        pub const D: usize = <EF as BasedVectorSpace<F>>::DIMENSION;

        pub fn fe(v: u64) -> F {
            F::from_u64(v % F::ORDER_U64)
        }
        pub fn ee(c: &[u64]) -> EF {
            EF::from_basis_coefficients_fn(|i| fe(c.get(i).copied().unwrap_or(0)))
        }
        pub fn co(e: &EF) -> Vec<u64> {
            <EF as BasedVectorSpace<F>>::as_basis_coefficients_slice(e).iter().map(|c: &F| c.as_canonical_u64()).collect()
        }

        pub struct Asg {
            pub sels: [EF; 3],
            pub alpha: EF,
            pub publics: Vec<F>,
            pub main: [Vec<EF>; 2],
            pub prep: [Vec<EF>; 2],
            pub periodic: Vec<EF>,
            pub perm: [Vec<EF>; 2],
            pub chal: Vec<EF>,
            pub permval: Vec<EF>,
        }

        pub fn asg_from(j: &AsgJ) -> Asg {
            let v = |x: &Vec<Vec<u64>>| -> Vec<EF> { x.iter().map(|c| ee(c)).collect() };
            Asg {
                sels: [ee(&j.sels[0]), ee(&j.sels[1]), ee(&j.sels[2])],
                alpha: ee(&j.alpha),
                publics: j.publics.iter().map(|p| fe(*p)).collect(),
                main: [v(&j.main[0]), v(&j.main[1])],
                prep: [v(&j.prep[0]), v(&j.prep[1])],
                periodic: v(&j.periodic),
                perm: [v(&j.perm[0]), v(&j.perm[1])],
                chal: v(&j.chal),
                permval: v(&j.permval),
            }
        }

        impl Asg {
            /// circuit public inputs in allocation order (see `alloc`)
            pub fn flat(&self) -> Vec<EF> {
                let mut o = self.sels.to_vec();
                o.push(self.alpha);
                o.extend(self.publics.iter().map(|p| EF::from(*p)));
                for s in [&self.main[0], &self.main[1], &self.prep[0], &self.prep[1], &self.periodic, &self.perm[0], &self.perm[1], &self.chal, &self.permval] {
                    o.extend(s.iter().copied());
                }
                o
            }
        }

        #[derive(Clone, Copy, Debug)]
        pub struct Shape {
            pub main: usize,
            pub prep: usize,
            pub publics: usize,
            pub periodic: usize,
            pub perm: usize,
            pub chal: usize,
            pub permval: usize,
        }

        pub fn shape_of(ir: &AirIR) -> Shape {
            Shape { main: ir.main, prep: ir.prep, publics: ir.publics, periodic: ir.periodic, perm: ir.perm_width(), chal: ir.n_chal(), permval: ir.n_permval() }
        }

        pub fn asg_for(rng: &mut SmallRng, s: &Shape, k: usize) -> AsgJ {
            gen_asg(rng, D, s.main, s.prep, s.publics, s.periodic, s.perm, s.chal, s.permval, k)
        }

        pub struct Tg {
            pub sels: [ExprId; 3],
            pub alpha: ExprId,
            pub publics: Vec<ExprId>,
            pub main: [Vec<ExprId>; 2],
            pub prep: [Vec<ExprId>; 2],
            pub periodic: Vec<ExprId>,
            pub perm: [Vec<ExprId>; 2],
            pub chal: Vec<ExprId>,
            pub permval: Vec<ExprId>,
        }

        pub fn alloc(b: &mut CircuitBuilder<EF>, s: &Shape) -> Tg {
            let sels = [b.public_input(), b.public_input(), b.public_input()];
            let alpha = b.public_input();
            let mut v = |n: usize| -> Vec<ExprId> { (0..n).map(|_| b.public_input()).collect() };
            let publics = v(s.publics);
            let main = [v(s.main), v(s.main)];
            let prep = [v(s.prep), v(s.prep)];
            let periodic = v(s.periodic);
            let perm = [v(s.perm), v(s.perm)];
            let chal = v(s.chal);
            let permval = v(s.permval);
            Tg { sels, alpha, publics, main, prep, periodic, perm, chal, permval }
        }

        pub fn columns<'a>(tg: &'a Tg) -> ColumnsTargets<'a> {
            ColumnsTargets {
                challenges: &tg.chal,
                public_values: &tg.publics,
                permutation_local_values: &tg.perm[0],
                permutation_next_values: &tg.perm[1],
                permutation_values: &tg.permval,
                local_prep_values: &tg.prep[0],
                next_prep_values: &tg.prep[1],
                periodic_values: &tg.periodic,
                local_values: &tg.main[0],
                next_values: &tg.main[1],
            }
        }

        pub fn row_sels(tg: &Tg) -> RowSelectorsTargets {
            RowSelectorsTargets { is_first_row: tg.sels[0], is_last_row: tg.sels[1], is_transition: tg.sels[2] }
        }

        /// The repo's path: symbolic constraints -> SymbolicCompiler -> alpha folding.
        pub fn compile_air<A: RecursiveAir<F, EF, LogUpGadget>>(b: &mut CircuitBuilder<EF>, air: &A, contexts: &[Lookup<F>], tg: &Tg) -> ExprId {
            let sels = RecursiveLagrangeSelectors { row_selectors: row_sels(tg), inv_vanishing: tg.alpha };
            air.eval_folded_circuit(b, &sels, &tg.alpha, &LookupMetadata { contexts }, columns(tg), &LogUpGadget::new())
        }

        /// The native verifier's folder on the same AIR and values.
        pub fn native<A>(air: &A, contexts: &[Lookup<F>], a: &Asg) -> EF
        where
            A: for<'x> p3_air::Air<VerifierConstraintFolderWithLookups<'x, SC>>,
        {
            let main = VerticalPair::new(RowMajorMatrixView::new_row(&a.main[0]), RowMajorMatrixView::new_row(&a.main[1]));
            let preprocessed = VerticalPair::new(RowMajorMatrixView::new_row(&a.prep[0]), RowMajorMatrixView::new_row(&a.prep[1]));
            let preprocessed_window = p3_air::RowWindow::from_two_rows(preprocessed.top.values, preprocessed.bottom.values);
            let inner = VerifierConstraintFolder::<SC> {
                main,
                preprocessed,
                preprocessed_window,
                periodic_values: &a.periodic,
                public_values: &a.publics,
                is_first_row: a.sels[0],
                is_last_row: a.sels[1],
                is_transition: a.sels[2],
                alpha: a.alpha,
                accumulator: EF::ZERO,
            };
            let mut folder = VerifierConstraintFolderWithLookups {
                inner,
                permutation: VerticalPair::new(RowMajorMatrixView::new_row(&a.perm[0]), RowMajorMatrixView::new_row(&a.perm[1])),
                permutation_challenges: &a.chal,
                permutation_values: &a.permval,
            };
            LogUpGadget::new().eval_air_and_lookups(air, &mut folder, contexts);
            folder.inner.accumulator
        }

        // ---- IR -> symbolic helpers ----

        pub fn sym_leaf_b(l: &Leaf) -> SymB {
            let var = |e: BaseEntry, i: usize| SymB::Leaf(BaseLeaf::Variable(SymbolicVariable::new(e, i)));
            match l {
                Leaf::Main { row, col } => var(BaseEntry::Main { offset: *row as usize }, *col),
                Leaf::Prep { row, col } => var(BaseEntry::Preprocessed { offset: *row as usize }, *col),
                Leaf::Public(i) => var(BaseEntry::Public, *i),
                Leaf::Periodic(i) => var(BaseEntry::Periodic, *i),
                Leaf::IsFirst => SymB::Leaf(BaseLeaf::IsFirstRow),
                Leaf::IsLast => SymB::Leaf(BaseLeaf::IsLastRow),
                Leaf::IsTrans => SymB::Leaf(BaseLeaf::IsTransition),
                Leaf::Const(c) => SymB::Leaf(BaseLeaf::Constant(fe(*c))),
                _ => panic!("extension leaf in base position"),
            }
        }
        pub fn sym_leaf_e(l: &Leaf) -> SymE {
            let var = |e: ExtEntry, i: usize| SymE::Leaf(ExtLeaf::ExtVariable(SymbolicVariableExt::new(e, i)));
            match l {
                Leaf::Perm { row, col } => var(ExtEntry::Permutation { offset: *row as usize }, *col),
                Leaf::Chal(i) => var(ExtEntry::Challenge, *i),
                Leaf::PermVal(i) => var(ExtEntry::PermutationValue, *i),
                Leaf::ExtConst(c) => SymE::Leaf(ExtLeaf::ExtConstant(EF::from_basis_coefficients_fn(|i| fe(c[i % c.len()])))),
                b => SymE::Leaf(ExtLeaf::Base(sym_leaf_b(b))),
            }
        }
        pub fn le_sym(le: &LE) -> SymB {
            match le {
                LE::L(l) => sym_leaf_b(l),
                LE::Add(a, b) => le_sym(a) + le_sym(b),
                LE::Sub(a, b) => le_sym(a) - le_sym(b),
                LE::Mul(a, b) => le_sym(a) * le_sym(b),
                LE::Neg(a) => -le_sym(a),
            }
        }
        pub fn contexts_of(ir: &AirIR) -> Vec<Lookup<F>> {
            ir.lookups
                .iter()
                .enumerate()
                .map(|(i, l)| Lookup {
                    kind: match &l.global {
                        Some(n) => Kind::Global(n.clone()),
                        None => Kind::Local,
                    },
                    elements: l.tuples.iter().map(|(t, _)| t.iter().map(le_sym).collect()).collect(),
                    multiplicities: l.tuples.iter().map(|(_, m)| le_sym(m)).collect(),
                    count_weight: 1,
                    column: i,
                })
                .collect()
        }

        // ---- independent interpreter of the IR ----

        pub fn leaf_val(l: &Leaf, a: &Asg) -> EF {
            match l {
                Leaf::Main { row, col } => a.main[*row as usize][*col],
                Leaf::Prep { row, col } => a.prep[*row as usize][*col],
                Leaf::Public(i) => EF::from(a.publics[*i]),
                Leaf::Periodic(i) => a.periodic[*i],
                Leaf::IsFirst => a.sels[0],
                Leaf::IsLast => a.sels[1],
                Leaf::IsTrans => a.sels[2],
                Leaf::Const(c) => EF::from(fe(*c)),
                Leaf::Perm { row, col } => a.perm[*row as usize][*col],
                Leaf::Chal(i) => a.chal[*i],
                Leaf::PermVal(i) => a.permval[*i],
                Leaf::ExtConst(c) => EF::from_basis_coefficients_fn(|i| fe(c[i % c.len()])),
            }
        }
        pub fn interp(ir: &AirIR, a: &Asg) -> Vec<EF> {
            let mut v: Vec<EF> = Vec::with_capacity(ir.nodes.len());
            for n in &ir.nodes {
                let x = match n {
                    Node::Leaf(l) => leaf_val(l, a),
                    Node::Lift(r) => v[r.n],
                    Node::Neg(r) => -v[r.n],
                    Node::Add(x, y) => v[x.n] + v[y.n],
                    Node::Sub(x, y) => v[x.n] - v[y.n],
                    Node::Mul(x, y) => v[x.n] * v[y.n],
                };
                v.push(x);
            }
            v
        }
        /// value of every emitted constraint, in emission order, with its kind (true = extension)
        pub fn cons_terms(ir: &AirIR, a: &Asg) -> Vec<(bool, EF)> {
            let v = interp(ir, a);
            let ty = ir.types();
            ir.cons
                .iter()
                .map(|c| {
                    let x = v[c.x.n];
                    let e = ty[c.x.n];
                    let t = match &c.filter {
                        Filter::None => x,
                        Filter::First => a.sels[0] * x,
                        Filter::Last => a.sels[1] * x,
                        Filter::Trans => a.sels[2] * x,
                        Filter::When(r) => if ty[r.n] { x } else { v[r.n] * x },
                        Filter::Eq(r) => if ty[r.n] && !e { x } else { x - v[r.n] },
                        Filter::Bool => if e { x } else { x * (x - EF::ONE) },
                    };
                    (e, t)
                })
                .collect()
        }
        pub fn fold(terms: impl Iterator<Item = EF>, alpha: EF) -> EF {
            terms.fold(EF::ZERO, |acc, t| acc * alpha + t)
        }

        // ---- statistics over the symbolic constraints the repo compiles ----

        pub fn walk(base: &[SymB], ext: &[SymE], st: &mut Stats) {
            let mut seen_b: HashSet<*const SymB> = HashSet::new();
            let mut seen_e: HashSet<*const SymE> = HashSet::new();
            let mut sb: Vec<&SymB> = base.iter().collect();
            let mut se: Vec<&SymE> = ext.iter().collect();
            loop {
                if let Some(n) = se.pop() {
                    if !seen_e.insert(n as *const _) {
                        st.shared += 1;
                        continue;
                    }
                    st.nodes += 1;
                    match n {
                        SymE::Leaf(ExtLeaf::Base(b)) => {
                            st.leaf_kinds.insert("base-in-ext");
                            sb.push(b);
                        }
                        SymE::Leaf(ExtLeaf::ExtVariable(v)) => {
                            st.leaf_kinds.insert(match v.entry {
                                ExtEntry::Permutation { offset: 0 } => "perm-local",
                                ExtEntry::Permutation { .. } => "perm-next",
                                ExtEntry::Challenge => "challenge",
                                ExtEntry::PermutationValue => "perm-value",
                            });
                        }
                        SymE::Leaf(ExtLeaf::ExtConstant(_)) => {
                            st.leaf_kinds.insert("ext-const");
                        }
                        SymE::Neg { x, .. } => {
                            st.ops.insert("ext-neg");
                            se.push(x);
                        }
                        SymE::Add { x, y, .. } => {
                            st.ops.insert("ext-add");
                            se.push(x);
                            se.push(y);
                        }
                        SymE::Sub { x, y, .. } => {
                            st.ops.insert("ext-sub");
                            se.push(x);
                            se.push(y);
                        }
                        SymE::Mul { x, y, .. } => {
                            st.ops.insert("ext-mul");
                            se.push(x);
                            se.push(y);
                        }
                    }
                    continue;
                }
                let Some(n) = sb.pop() else { break };
                if !seen_b.insert(n as *const _) {
                    st.shared += 1;
                    continue;
                }
                st.nodes += 1;
                match n {
                    SymB::Leaf(BaseLeaf::Variable(v)) => {
                        st.leaf_kinds.insert(match v.entry {
                            BaseEntry::Main { offset: 0 } => "main-local",
                            BaseEntry::Main { .. } => "main-next",
                            BaseEntry::Preprocessed { offset: 0 } => "prep-local",
                            BaseEntry::Preprocessed { .. } => "prep-next",
                            BaseEntry::Public => "public",
                            BaseEntry::Periodic => "periodic",
                        });
                    }
                    SymB::Leaf(BaseLeaf::IsFirstRow) => {
                        st.leaf_kinds.insert("is-first");
                    }
                    SymB::Leaf(BaseLeaf::IsLastRow) => {
                        st.leaf_kinds.insert("is-last");
                    }
                    SymB::Leaf(BaseLeaf::IsTransition) => {
                        st.leaf_kinds.insert("is-transition");
                    }
                    SymB::Leaf(BaseLeaf::Constant(_)) => {
                        st.leaf_kinds.insert("const");
                    }
                    SymB::Neg { x, .. } => {
                        st.ops.insert("neg");
                        sb.push(x);
                    }
                    SymB::Add { x, y, .. } => {
                        st.ops.insert("add");
                        sb.push(x);
                        sb.push(y);
                    }
                    SymB::Sub { x, y, .. } => {
                        st.ops.insert("sub");
                        sb.push(x);
                        sb.push(y);
                    }
                    SymB::Mul { x, y, .. } => {
                        st.ops.insert("mul");
                        sb.push(x);
                        sb.push(y);
                    }
                }
            }
        }

        pub fn stats_of<A>(air: &A, contexts: &[Lookup<F>], s: &Shape) -> Stats
        where
            A: p3_air::Air<p3_lookup::InteractionSymbolicBuilder<F, EF>>,
        {
            let layout = AirLayout {
                preprocessed_width: s.prep,
                main_width: s.main,
                num_public_values: s.publics,
                num_periodic_columns: s.periodic,
                num_permutation_values: s.permval,
                ..Default::default()
            };
            let (b, e) = p3_batch_stark::symbolic::get_symbolic_constraints::<F, EF, A, LogUpGadget>(air, layout, contexts, &LogUpGadget::new());
            let mut st = Stats::default();
            walk(&b, &e, &mut st);
            st
        }

        /// Many short-lived symbolic expressions (address reuse for the pointer-keyed caches).
        pub fn garbage(rng: &mut SmallRng, n: usize) {
            let mut vb: Vec<SymB> = vec![sym_leaf_b(&Leaf::Main { row: 0, col: 0 }), sym_leaf_b(&Leaf::IsFirst), sym_leaf_b(&Leaf::Const(3))];
            let mut ve: Vec<SymE> = vec![sym_leaf_e(&Leaf::Chal(0)), sym_leaf_e(&Leaf::ExtConst(vec![1, 2, 3]))];
            for _ in 0..n {
                let a = vb[rng.random_range(0..vb.len())].clone();
                let b = vb[rng.random_range(0..vb.len())].clone();
                vb.push(match rng.random_range(0..4u32) {
                    0 => a + b,
                    1 => a - b,
                    2 => a * b,
                    _ => -a,
                });
                let x = ve[rng.random_range(0..ve.len())].clone();
                let y = ve[rng.random_range(0..ve.len())].clone();
                ve.push(match rng.random_range(0..4u32) {
                    0 => x + y,
                    1 => x * vb[rng.random_range(0..vb.len())].clone(),
                    2 => x - y,
                    _ => -x,
                });
                if vb.len() > 40 {
                    vb.drain(3..20);
                }
                if ve.len() > 40 {
                    ve.drain(2..20);
                }
            }
        }

        pub fn run_circuit(b: CircuitBuilder<EF>, outs: &[ExprId], inputs: &[Vec<EF>]) -> Result<Vec<Vec<EF>>, String> {
            let mut b = b;
            for (i, o) in outs.iter().enumerate() {
                b.tag(*o, format!("o{i}")).map_err(|e| format!("harness: tag {e:?}"))?;
            }
            let circuit = b.build().map_err(|e| format!("harness: build {e:?}"))?;
            let mut all = vec![];
            for x in inputs {
                let mut r = circuit.runner();
                r.set_public_inputs(x).map_err(|e| format!("harness: set_public_inputs {e:?}"))?;
                let traces = r.run().map_err(|e| {
                    let s = format!("{e:?}");
                    format!("run:{}", s.split(|c: char| !c.is_alphanumeric()).next().unwrap_or("Err"))
                })?;
                let mut v = vec![];
                for (i, o) in outs.iter().enumerate() {
                    let w = circuit.expr_to_widx.get(o).ok_or_else(|| format!("harness: output {i} has no slot"))?;
                    let val = traces.witness_trace.get_value(*w).copied().ok_or_else(|| format!("harness: output {i} unset"))?;
                    if traces.probe(&format!("o{i}")).copied() != Some(val) {
                        return Err("run:ProbeDisagreesWithSlot".into());
                    }
                    v.push(val);
                }
                all.push(v);
            }
            Ok(all)
        }
    };
}

macro_rules! body2 {
    () => {
        pub enum Outcome {
            Held,
            Viol(String, Value),
            Inc(String),
        }

        pub fn air_class(ir: &AirIR) -> &'static str {
            if !ir.lookups.is_empty() {
                "lookups"
            } else if ir.types().iter().any(|t| *t) {
                "ext"
            } else {
                "base-only"
            }
        }

        /// Compare the circuit's folded value with the native folder for one AIR / assignment.
        pub fn judge_air(ir: &AirIR, aj: &AsgJ, got: EF) -> Outcome {
            let a = asg_from(aj);
            let air = RandAir::new(ir.clone());
            let ctx = contexts_of(ir);
            let exp = match guarded(|| native(&air, &ctx, &a)) {
                Ok(e) => e,
                Err(p) => return Outcome::Inc(format!("native folder panicked: {}", panic_site(&p))),
            };
            if ir.lookups.is_empty() {
                // harness self-check: the independent interpreter must agree with the native folder
                let mine = fold(cons_terms(ir, &a).into_iter().map(|t| t.1), a.alpha);
                if mine != exp {
                    return Outcome::Inc("harness: IR interpreter disagrees with native folder".into());
                }
            }
            if got == exp {
                return Outcome::Held;
            }
            // diagnosis: would the native folder give the circuit's value if all base constraints
            // were emitted before all extension constraints?
            let ty = ir.types();
            let mut sorted = ir.clone();
            sorted.cons.sort_by_key(|c| ty[c.x.n]);
            let exp_sorted = guarded(|| native(&RandAir::new(sorted), &ctx, &a)).ok();
            let reorder = ir.base_after_ext() && exp_sorted == Some(got);
            let sig = if reorder {
                "fold-order/base-constraint-after-ext-constraint".to_string()
            } else {
                format!("value-mismatch/air/{}", air_class(ir))
            };
            Outcome::Viol(
                sig,
                json!({"expected_native": co(&exp), "got_circuit": co(&got),
                       "circuit_equals_native_with_base_constraints_first": reorder,
                       "emission_order_is_ext": ir.cons.iter().map(|c| ty[c.x.n]).collect::<Vec<_>>()}),
            )
        }

        /// One AIR alone in a fresh builder.
        pub fn standalone(ir: &AirIR, aj: &AsgJ) -> Outcome {
            let air = RandAir::new(ir.clone());
            let ctx = contexts_of(ir);
            let mut b = CircuitBuilder::<EF>::new();
            let tg = alloc(&mut b, &shape_of(ir));
            let out = match guarded(|| compile_air(&mut b, &air, &ctx, &tg)) {
                Ok(o) => o,
                Err(p) => return Outcome::Viol(format!("compile-panic/air/{}", panic_site(&p)), json!({"panic": p})),
            };
            match run_circuit(b, &[out], &[asg_from(aj).flat()]) {
                Ok(v) => judge_air(ir, aj, v[0][0]),
                Err(e) if e.starts_with("harness") => Outcome::Inc(e),
                Err(e) => Outcome::Viol(format!("circuit-run-failed/air/{e}"), json!({"error": e})),
            }
        }

        pub fn fit(aj: &AsgJ, s: &Shape) -> AsgJ {
            let mut j = aj.clone();
            let z = vec![0u64; D];
            j.publics.resize(s.publics, 0);
            for r in 0..2 {
                j.main[r].resize(s.main, z.clone());
                j.prep[r].resize(s.prep, z.clone());
                j.perm[r].resize(s.perm, z.clone());
            }
            j.periodic.resize(s.periodic, z.clone());
            j.chal.resize(s.chal, z.clone());
            j.permval.resize(s.permval, z);
            j
        }

        /// Greedy reduction of a failing (AIR, assignment) keeping the signature.
        pub fn shrink(ir: &AirIR, aj: &AsgJ, sig: &str) -> (AirIR, AsgJ) {
            let same = |c: &AirIR, j: &AsgJ| matches!(standalone(c, j), Outcome::Viol(s, _) if s == sig);
            let (mut cur, mut cj) = (ir.clone(), aj.clone());
            if !same(&cur, &cj) {
                return (cur, cj);
            }
            let mut progress = true;
            while progress {
                progress = false;
                // permutation / challenge leaves -> extension constants (lets the lookups go away)
                for i in 0..cur.nodes.len() {
                    if matches!(&cur.nodes[i], Node::Leaf(Leaf::Perm { .. } | Leaf::Chal(_) | Leaf::PermVal(_))) {
                        let mut c = cur.clone();
                        c.nodes[i] = Node::Leaf(Leaf::ExtConst(vec![2, 3, 5, 7, 11, 13, 17, 19]));
                        if same(&c, &cj) {
                            cur = c;
                            progress = true;
                        }
                    }
                }
                if !cur.lookups.is_empty() {
                    let mut c = cur.clone();
                    c.lookups.pop();
                    let j = fit(&cj, &shape_of(&c));
                    if same(&c, &j) {
                        cur = c;
                        cj = j;
                        progress = true;
                        continue;
                    }
                }
                for i in 0..cur.cons.len() {
                    if cur.cons.len() > 1 {
                        let mut c = cur.clone();
                        c.cons.remove(i);
                        if same(&c, &cj) {
                            cur = c;
                            progress = true;
                            break;
                        }
                    }
                    if cur.cons[i].filter != Filter::None {
                        let mut c = cur.clone();
                        c.cons[i].filter = Filter::None;
                        if same(&c, &cj) {
                            cur = c;
                            progress = true;
                            break;
                        }
                    }
                    // replace the constrained node by one of its operands
                    let ops: Vec<R> = match &cur.nodes[cur.cons[i].x.n] {
                        Node::Leaf(_) => vec![],
                        Node::Lift(a) | Node::Neg(a) => vec![*a],
                        Node::Add(a, b) | Node::Sub(a, b) | Node::Mul(a, b) => vec![*a, *b],
                    };
                    let mut done = false;
                    for o in ops {
                        let mut c = cur.clone();
                        c.cons[i].x = R { n: o.n, re: false };
                        if same(&c, &cj) {
                            cur = c;
                            done = true;
                            break;
                        }
                    }
                    if done {
                        progress = true;
                        break;
                    }
                }
            }
            let p = cur.pruned();
            if same(&p, &cj) { (p, cj) } else { (cur, cj) }
        }

        pub fn ir_key(mode: &str, ir: &AirIR) -> String {
            format!("{NAME}:{mode}:{:016x}", fnv(&serde_json::to_string(ir).unwrap()))
        }

        pub fn viol(mode: &str, key: String, sig: String, ir: &AirIR, aj: &AsgJ, extra: Value, case: &Value) -> CaseResult {
            CaseResult::violated(
                key,
                sig,
                json!({"cfg": NAME, "mode": mode, "case": case, "ir": ir, "asg": aj, "extra": extra,
                       "nodes": ir.nodes.len(), "constraints": ir.cons.len()}),
            )
        }

        /// 1-3 random AIRs compiled by the repo's `eval_folded_circuit` into one builder, with
        /// many short-lived symbolic expressions in between; 4 assignments each.
        pub fn air_case(seed: u64, idx: usize, tier: Tier) -> Vec<CaseResult> {
            let mut rng = case_rng(seed, "c13-air", idx as u64);
            let case = json!({"seed": seed, "idx": idx, "tier": tier.name(), "kind": "air"});
            let k = rng.random_range(1..=3usize);
            let irs: Vec<AirIR> = (0..k).map(|_| gen_air(&mut rng, tier.pick(40, 70), true)).collect();
            garbage(&mut rng, 60);
            let mut b = CircuitBuilder::<EF>::new();
            let mut outs = vec![];
            let mut stats = vec![];
            for ir in &irs {
                let air = RandAir::new(ir.clone());
                let ctx = contexts_of(ir);
                let sh = shape_of(ir);
                let tg = alloc(&mut b, &sh);
                garbage(&mut rng, 40);
                match guarded(|| compile_air(&mut b, &air, &ctx, &tg)) {
                    Ok(o) => outs.push(o),
                    Err(p) => {
                        let aj = asg_for(&mut rng, &sh, 0);
                        return vec![viol("air", ir_key("air", ir), format!("compile-panic/air/{}", panic_site(&p)), ir, &aj, json!({"panic": p}), &case)];
                    }
                }
                garbage(&mut rng, 40);
                stats.push(stats_of(&air, &ctx, &sh));
            }
            let n_asg = 4;
            let asgs: Vec<Vec<AsgJ>> = (0..n_asg).map(|a| irs.iter().map(|ir| asg_for(&mut rng, &shape_of(ir), a)).collect()).collect();
            let inputs: Vec<Vec<EF>> = asgs.iter().map(|per| per.iter().flat_map(|j| asg_from(j).flat()).collect()).collect();
            let vals = match run_circuit(b, &outs, &inputs) {
                Ok(v) => v,
                Err(e) if e.starts_with("harness") => return vec![CaseResult::inconclusive(format!("{NAME}:air:{idx}"), e)],
                Err(e) => {
                    return vec![viol("air", ir_key("air", &irs[0]), format!("circuit-run-failed/air/{e}"), &irs[0], &asgs[0][0], json!({"error": e, "all_irs": irs}), &case)];
                }
            };
            let mut res = vec![];
            for (i, ir) in irs.iter().enumerate() {
                let st = &stats[i];
                let (shared_ir, re) = ir.sharing();
                let nontrivial = st.shared >= 1 && st.leaf_kinds.len() >= 3;
                let key = ir_key("air", ir);
                for a in 0..n_asg {
                    let r = match judge_air(ir, &asgs[a][i], vals[a][i]) {
                        Outcome::Held => {
                            let mut r = CaseResult::held(key.clone(), nontrivial);
                            if a == 0 {
                                for kd in &st.leaf_kinds {
                                    r = r.count(format!("leaf/{kd}"), 1);
                                }
                                for o in &st.ops {
                                    r = r.count(format!("op/{o}"), 1);
                                }
                                r = r
                                    .count(format!("airs/{}", air_class(ir)), 1)
                                    .count("sym-nodes", st.nodes as u64)
                                    .count("sym-shared-hits", st.shared as u64)
                                    .count("ir-shared-nodes", shared_ir as u64)
                                    .count("ir-reevaluated-refs", re as u64);
                                let dmax = ir.depths().into_iter().max().unwrap_or(0);
                                if dmax >= 20 {
                                    r = r.count("airs/depth>=20", 1);
                                }
                                if dmax >= 35 {
                                    r = r.count("airs/depth>=35", 1);
                                }
                                if idx < 3 && i == 0 {
                                    r = r.with_sample(json!({"cfg": NAME, "mode": "air", "shape": format!("{:?}", shape_of(ir)),
                                        "nodes": ir.nodes.iter().take(24).map(|n| format!("{n:?}")).collect::<Vec<_>>(),
                                        "cons": ir.cons.iter().map(|c| format!("{c:?}")).collect::<Vec<_>>(),
                                        "sym_leaf_kinds": st.leaf_kinds, "sym_shared": st.shared}));
                                }
                            }
                            r
                        }
                        Outcome::Inc(w) => CaseResult::inconclusive(key.clone(), w),
                        Outcome::Viol(sig, extra) => {
                            // (reduced later, once per signature, by `minimise` in main)
                            let (ir2, aj2, extra2) = (ir.clone(), asgs[a][i].clone(), json!({"diag": extra, "airs_in_case": irs.len()}));
                            viol("air", key.clone(), sig, &ir2, &aj2, extra2, &case)
                        }
                    };
                    res.push(r);
                }
            }
            res
        }

        /// Reduce the witness of a violation (AIR mode) if it reproduces in isolation.
        pub fn minimise(d: &Value, sig: &str) -> Option<Value> {
            if d["mode"].as_str() != Some("air") {
                return None;
            }
            let ir: AirIR = serde_json::from_value(d["ir"].clone()).ok()?;
            let aj: AsgJ = serde_json::from_value(d["asg"].clone()).ok()?;
            match standalone(&ir, &aj) {
                Outcome::Viol(s, _) if s == sig => {}
                _ => return None,
            }
            let (p, j) = shrink(&ir, &aj, sig);
            let diag = match standalone(&p, &j) {
                Outcome::Viol(_, e) => e,
                _ => Value::Null,
            };
            let mut out = d.clone();
            out["ir"] = json!(p);
            out["asg"] = json!(j);
            out["nodes"] = json!(p.nodes.len());
            out["constraints"] = json!(p.cons.len());
            out["extra"] = json!({"standalone": true, "minimised": true, "diag": diag});
            Some(out)
        }

        // ---- direct mode: hand-built DAGs with same-node Arc sharing -> SymbolicCompiler ----

        pub enum Root {
            B(Arc<SymB>),
            E(Arc<SymE>),
        }

        fn d_rebuild_b(ir: &AirIR, i: usize) -> SymB {
            let ch = |r: &R| Arc::new(d_rebuild_b(ir, r.n));
            match &ir.nodes[i] {
                Node::Leaf(l) => sym_leaf_b(l),
                Node::Lift(_) => unreachable!(),
                Node::Neg(a) => SymB::Neg { x: ch(a), degree_multiple: 0 },
                Node::Add(x, y) => SymB::Add { x: ch(x), y: ch(y), degree_multiple: 0 },
                Node::Sub(x, y) => SymB::Sub { x: ch(x), y: ch(y), degree_multiple: 0 },
                Node::Mul(x, y) => SymB::Mul { x: ch(x), y: ch(y), degree_multiple: 0 },
            }
        }
        fn d_rebuild_e(ir: &AirIR, ty: &[bool], i: usize) -> SymE {
            if !ty[i] {
                return SymE::Leaf(ExtLeaf::Base(d_rebuild_b(ir, i)));
            }
            let ch = |r: &R| Arc::new(d_rebuild_e(ir, ty, r.n));
            match &ir.nodes[i] {
                Node::Leaf(l) => sym_leaf_e(l),
                Node::Lift(a) => SymE::Leaf(ExtLeaf::Base(d_rebuild_b(ir, a.n))),
                Node::Neg(a) => SymE::Neg { x: ch(a), degree_multiple: 0 },
                Node::Add(x, y) => SymE::Add { x: ch(x), y: ch(y), degree_multiple: 0 },
                Node::Sub(x, y) => SymE::Sub { x: ch(x), y: ch(y), degree_multiple: 0 },
                Node::Mul(x, y) => SymE::Mul { x: ch(x), y: ch(y), degree_multiple: 0 },
            }
        }

        /// One `Arc` per IR node; every non-`re` reference shares that very allocation.
        pub fn dag_roots(ir: &AirIR) -> Vec<Root> {
            let ty = ir.types();
            let n = ir.nodes.len();
            let mut nb: Vec<Option<Arc<SymB>>> = vec![None; n];
            let mut ne: Vec<Option<Arc<SymE>>> = vec![None; n];
            fn gb(ir: &AirIR, nb: &[Option<Arc<SymB>>], r: &R) -> Arc<SymB> {
                if r.re { Arc::new(d_rebuild_b(ir, r.n)) } else { nb[r.n].clone().expect("base node") }
            }
            fn ge(ir: &AirIR, ty: &[bool], nb: &[Option<Arc<SymB>>], ne: &[Option<Arc<SymE>>], r: &R) -> Arc<SymE> {
                if ty[r.n] {
                    if r.re { Arc::new(d_rebuild_e(ir, ty, r.n)) } else { ne[r.n].clone().expect("ext node") }
                } else {
                    Arc::new(SymE::Leaf(ExtLeaf::Base((*gb(ir, nb, r)).clone())))
                }
            }
            for i in 0..n {
                if !ty[i] {
                    let v = match &ir.nodes[i] {
                        Node::Leaf(l) => sym_leaf_b(l),
                        Node::Lift(_) => unreachable!(),
                        Node::Neg(a) => SymB::Neg { x: gb(ir, &nb, a), degree_multiple: 0 },
                        Node::Add(x, y) => SymB::Add { x: gb(ir, &nb, x), y: gb(ir, &nb, y), degree_multiple: 0 },
                        Node::Sub(x, y) => SymB::Sub { x: gb(ir, &nb, x), y: gb(ir, &nb, y), degree_multiple: 0 },
                        Node::Mul(x, y) => SymB::Mul { x: gb(ir, &nb, x), y: gb(ir, &nb, y), degree_multiple: 0 },
                    };
                    nb[i] = Some(Arc::new(v));
                } else {
                    let v = match &ir.nodes[i] {
                        Node::Leaf(l) => sym_leaf_e(l),
                        Node::Lift(a) => SymE::Leaf(ExtLeaf::Base((*gb(ir, &nb, a)).clone())),
                        Node::Neg(a) => SymE::Neg { x: ge(ir, &ty, &nb, &ne, a), degree_multiple: 0 },
                        Node::Add(x, y) => SymE::Add { x: ge(ir, &ty, &nb, &ne, x), y: ge(ir, &ty, &nb, &ne, y), degree_multiple: 0 },
                        Node::Sub(x, y) => SymE::Sub { x: ge(ir, &ty, &nb, &ne, x), y: ge(ir, &ty, &nb, &ne, y), degree_multiple: 0 },
                        Node::Mul(x, y) => SymE::Mul { x: ge(ir, &ty, &nb, &ne, x), y: ge(ir, &ty, &nb, &ne, y), degree_multiple: 0 },
                    };
                    ne[i] = Some(Arc::new(v));
                }
            }
            let sel = |l: Leaf| Arc::new(sym_leaf_b(&l));
            ir.cons
                .iter()
                .map(|c| {
                    if !ty[c.x.n] {
                        let x = gb(ir, &nb, &c.x);
                        let mulb = |s: Arc<SymB>, x: Arc<SymB>| Arc::new(SymB::Mul { x: s, y: x, degree_multiple: 0 });
                        Root::B(match &c.filter {
                            Filter::None => x,
                            Filter::First => mulb(sel(Leaf::IsFirst), x),
                            Filter::Last => mulb(sel(Leaf::IsLast), x),
                            Filter::Trans => mulb(sel(Leaf::IsTrans), x),
                            Filter::When(r) if !ty[r.n] => mulb(gb(ir, &nb, r), x),
                            Filter::Eq(r) if !ty[r.n] => Arc::new(SymB::Sub { x, y: gb(ir, &nb, r), degree_multiple: 0 }),
                            Filter::Bool => {
                                let one = Arc::new(sym_leaf_b(&Leaf::Const(1)));
                                let xm1 = Arc::new(SymB::Sub { x: x.clone(), y: one, degree_multiple: 0 });
                                Arc::new(SymB::Mul { x, y: xm1, degree_multiple: 0 })
                            }
                            _ => x,
                        })
                    } else {
                        let x = ge(ir, &ty, &nb, &ne, &c.x);
                        let mule = |s: Arc<SymE>, x: Arc<SymE>| Arc::new(SymE::Mul { x: s, y: x, degree_multiple: 0 });
                        let lift = |l: Leaf| Arc::new(SymE::Leaf(ExtLeaf::Base(sym_leaf_b(&l))));
                        Root::E(match &c.filter {
                            Filter::First => mule(lift(Leaf::IsFirst), x),
                            Filter::Last => mule(lift(Leaf::IsLast), x),
                            Filter::Trans => mule(lift(Leaf::IsTrans), x),
                            Filter::When(r) if !ty[r.n] => mule(ge(ir, &ty, &nb, &ne, r), x),
                            Filter::Eq(r) => Arc::new(SymE::Sub { x, y: ge(ir, &ty, &nb, &ne, r), degree_multiple: 0 }),
                            _ => x,
                        })
                    }
                })
                .collect()
        }

        pub fn compile_direct(b: &mut CircuitBuilder<EF>, ir: &AirIR, tg: &Tg) -> ExprId {
            let roots = dag_roots(ir);
            let cols = columns(tg);
            let compiler = SymbolicCompiler::new(row_sels(tg), &cols);
            let mut base_cache: HashMap<*const SymB, ExprId> = HashMap::new();
            let mut ext_cache: HashMap<*const SymE, ExprId> = HashMap::new();
            let mut acc = b.define_const(EF::ZERO);
            for r in &roots {
                let c = match r {
                    Root::B(x) => compiler.compile_base::<F, EF>(x, b, &mut base_cache),
                    Root::E(x) => compiler.compile_ext::<F, EF>(x, b, &mut base_cache, &mut ext_cache),
                };
                acc = b.mul_add(acc, tg.alpha, c);
            }
            acc
        }

        pub fn direct_standalone(ir: &AirIR, aj: &AsgJ) -> Outcome {
            let mut b = CircuitBuilder::<EF>::new();
            let tg = alloc(&mut b, &shape_of(ir));
            let out = match guarded(|| compile_direct(&mut b, ir, &tg)) {
                Ok(o) => o,
                Err(p) => return Outcome::Viol(format!("compile-panic/direct/{}", panic_site(&p)), json!({"panic": p})),
            };
            let a = asg_from(aj);
            let exp = fold(cons_terms(ir, &a).into_iter().map(|t| t.1), a.alpha);
            match run_circuit(b, &[out], &[a.flat()]) {
                Ok(v) if v[0][0] == exp => Outcome::Held,
                Ok(v) => Outcome::Viol(
                    format!("value-mismatch/direct/{}", if ir.types().iter().any(|t| *t) { "ext" } else { "base" }),
                    json!({"expected_interpreter": co(&exp), "got_circuit": co(&v[0][0])}),
                ),
                Err(e) if e.starts_with("harness") => Outcome::Inc(e),
                Err(e) => Outcome::Viol(format!("circuit-run-failed/direct/{e}"), json!({"error": e})),
            }
        }

        pub fn direct_case(seed: u64, idx: usize, tier: Tier) -> Vec<CaseResult> {
            let mut rng = case_rng(seed, "c13-direct", idx as u64);
            let case = json!({"seed": seed, "idx": idx, "tier": tier.name(), "kind": "direct"});
            let k = rng.random_range(1..=3usize);
            let irs: Vec<AirIR> = (0..k).map(|_| gen_air(&mut rng, tier.pick(50, 90), true)).collect();
            let mut b = CircuitBuilder::<EF>::new();
            let mut outs = vec![];
            for ir in &irs {
                let tg = alloc(&mut b, &shape_of(ir));
                garbage(&mut rng, 30);
                match guarded(|| compile_direct(&mut b, ir, &tg)) {
                    Ok(o) => outs.push(o),
                    Err(p) => {
                        let aj = asg_for(&mut rng, &shape_of(ir), 0);
                        return vec![viol("direct", ir_key("direct", ir), format!("compile-panic/direct/{}", panic_site(&p)), ir, &aj, json!({"panic": p}), &case)];
                    }
                }
                // the DAG of this AIR is dropped here; the next one reuses its addresses
                garbage(&mut rng, 30);
            }
            let n_asg = 3;
            let asgs: Vec<Vec<AsgJ>> = (0..n_asg).map(|a| irs.iter().map(|ir| asg_for(&mut rng, &shape_of(ir), a)).collect()).collect();
            let inputs: Vec<Vec<EF>> = asgs.iter().map(|per| per.iter().flat_map(|j| asg_from(j).flat()).collect()).collect();
            let vals = match run_circuit(b, &outs, &inputs) {
                Ok(v) => v,
                Err(e) if e.starts_with("harness") => return vec![CaseResult::inconclusive(format!("{NAME}:direct:{idx}"), e)],
                Err(e) => return vec![viol("direct", ir_key("direct", &irs[0]), format!("circuit-run-failed/direct/{e}"), &irs[0], &asgs[0][0], json!({"error": e}), &case)],
            };
            let mut res = vec![];
            for (i, ir) in irs.iter().enumerate() {
                let (shared, re) = ir.sharing();
                let kinds = ir.leaf_kinds();
                let key = ir_key("direct", ir);
                for a in 0..n_asg {
                    let asg = asg_from(&asgs[a][i]);
                    let exp = fold(cons_terms(ir, &asg).into_iter().map(|t| t.1), asg.alpha);
                    if vals[a][i] == exp {
                        let mut r = CaseResult::held(key.clone(), shared >= 1 && kinds.len() >= 3);
                        if a == 0 {
                            r = r.count("direct-dags", 1).count("direct/arc-shared-nodes", shared as u64).count("direct/reevaluated-refs", re as u64);
                            if ir.depths().into_iter().max().unwrap_or(0) >= 30 {
                                r = r.count("direct/depth>=30", 1);
                            }
                        }
                        res.push(r);
                    } else {
                        let sig = format!("value-mismatch/direct/{}", if ir.types().iter().any(|t| *t) { "ext" } else { "base" });
                        let extra = json!({"expected_interpreter": co(&exp), "got_circuit": co(&vals[a][i]),
                            "standalone": matches!(direct_standalone(ir, &asgs[a][i]), Outcome::Viol(..))});
                        res.push(viol("direct", key.clone(), sig, &ir.pruned(), &asgs[a][i], extra, &case));
                    }
                }
            }
            res
        }
    };
}

macro_rules! body3 {
    () => {
        use p3_circuit_prover::common::{CircuitTableAir, NpoAirBuilder, NpoPreprocessor, get_airs_and_degrees_with_prep};
        use p3_circuit_prover::{ConstraintProfile, Poseidon2Preprocessor, RecomposePreprocessor, TablePacking};
        use p3_lookup::Lookups;

        pub fn air_kind(a: &CircuitTableAir<SC, DD>) -> String {
            match a {
                CircuitTableAir::Const(_) => "Const".into(),
                CircuitTableAir::Public(_) => "Public".into(),
                CircuitTableAir::Alu(_) => "Alu".into(),
                CircuitTableAir::Dynamic(d) => {
                    let w = <CircuitTableAir<SC, DD> as p3_air::BaseAir<F>>::width(a);
                    let _ = d;
                    // Poseidon2 tables are hundreds of columns wide, recompose tables a few
                    if w > 64 { "Dynamic/Poseidon2".into() } else { "Dynamic/Recompose".into() }
                }
            }
        }

        /// Lookups exactly as `ProverData::from_airs_and_degrees` / the repo derive them.
        pub fn lookups_of(air: &CircuitTableAir<SC, DD>) -> Vec<Lookup<F>> {
            let gadget = LogUpGadget::new();
            let unpacked = Lookups::from_air::<EF, _>(air);
            let log_chunks = p3_batch_stark::symbolic::get_log_num_quotient_chunks::<F, EF, _, LogUpGadget>(
                air,
                AirLayout::from_air::<F>(air),
                &unpacked,
                0,
                &gadget,
            );
            let budget = (1usize << log_chunks) + 1;
            unpacked.pack_same_bus(&gadget, budget).to_vec()
        }

        pub fn real_case(seed: u64, idx: usize, tier: Tier) -> Vec<CaseResult> {
            let mut rng = case_rng(seed, "c13-real", idx as u64);
            let case = json!({"seed": seed, "idx": idx, "tier": tier.name(), "kind": "real"});
            let which = idx % 3;
            let circuit = if which == 2 {
                match poseidon_circuit(&mut rng) {
                    Some(c) => c,
                    None => return vec![],
                }
            } else {
                let opts = p3r_verif::pgen::GenOpts { size: rng.random_range(8..tier.pick(40usize, 80usize)), recompose_npo: D > 1, privates: false, ..Default::default() };
                let g = p3r_verif::pgen::gen_prog::<S>(&mut rng, &opts);
                match guarded(|| p3r_verif::prog::build::<S>(&g.prog)) {
                    Ok(Ok(b)) => b.circuit,
                    _ => return vec![CaseResult::inconclusive(format!("{NAME}:real:{idx}"), "generator: program not buildable")],
                }
            };
            let packing = TablePacking::new(rng.random_range(1..=4), rng.random_range(1..=4));
            let profile = if chance(&mut rng, 1, 2) { ConstraintProfile::Standard } else { ConstraintProfile::RecursionOptimized };
            let npo_prep: Vec<Box<dyn NpoPreprocessor<F>>> = vec![Box::new(Poseidon2Preprocessor), Box::new(RecomposePreprocessor::default())];
            let airs = match guarded(|| get_airs_and_degrees_with_prep::<SC, EF, DD>(&circuit, &packing, &npo_prep, &air_builders(), profile)) {
                Ok(Ok((a, _, _))) => a,
                Ok(Err(e)) => return vec![CaseResult::inconclusive(format!("{NAME}:real:{idx}"), format!("air construction failed: {}", format!("{e:?}").chars().take(60).collect::<String>()))],
                Err(p) => return vec![CaseResult::inconclusive(format!("{NAME}:real:{idx}"), format!("air construction panicked: {}", panic_site(&p)))],
            };
            let mut res = vec![];
            for (air, _deg) in &airs {
                let kind = air_kind(air);
                let ctx = match guarded(|| lookups_of(air)) {
                    Ok(c) => c,
                    Err(p) => {
                        res.push(CaseResult::inconclusive(format!("{NAME}:real:{kind}"), format!("lookup derivation panicked: {}", panic_site(&p))));
                        continue;
                    }
                };
                let sh = Shape {
                    main: <CircuitTableAir<SC, DD> as p3_air::BaseAir<F>>::width(air),
                    prep: <CircuitTableAir<SC, DD> as p3_air::BaseAir<F>>::preprocessed_width(air),
                    publics: <CircuitTableAir<SC, DD> as p3_air::BaseAir<F>>::num_public_values(air),
                    periodic: <CircuitTableAir<SC, DD> as p3_air::BaseAir<F>>::num_periodic_columns(air),
                    perm: if ctx.is_empty() { 0 } else { ctx.len() + 1 },
                    chal: 2 * ctx.len(),
                    permval: usize::from(!ctx.is_empty()),
                };
                let key = format!("{NAME}:real:{kind}:{:?}:{profile:?}:{}", sh, ctx.len());
                let mut b = CircuitBuilder::<EF>::new();
                let tg = alloc(&mut b, &sh);
                garbage(&mut rng, 20);
                let out = match guarded(|| compile_air(&mut b, air, &ctx, &tg)) {
                    Ok(o) => o,
                    Err(p) => {
                        res.push(CaseResult::violated(key, format!("compile-panic/real/{kind}/{}", panic_site(&p)), json!({"cfg": NAME, "mode": "real", "case": case, "kind": kind, "panic": p})));
                        continue;
                    }
                };
                let st = stats_of(air, &ctx, &sh);
                let asgs: Vec<AsgJ> = (0..3).map(|a| asg_for(&mut rng, &sh, a)).collect();
                let inputs: Vec<Vec<EF>> = asgs.iter().map(|j| asg_from(j).flat()).collect();
                match run_circuit(b, &[out], &inputs) {
                    Ok(vals) => {
                        for (a, j) in asgs.iter().enumerate() {
                            let asg = asg_from(j);
                            match guarded(|| native(air, &ctx, &asg)) {
                                Ok(exp) if exp == vals[a][0] => {
                                    let mut r = CaseResult::held(key.clone(), st.leaf_kinds.len() >= 3 && st.nodes > 0);
                                    if a == 0 {
                                        r = r.count(format!("real/{kind}"), 1).count("real/sym-nodes", st.nodes as u64).count("real/sym-shared-hits", st.shared as u64);
                                        for kd in &st.leaf_kinds {
                                            r = r.count(format!("real-leaf/{kd}"), 1);
                                        }
                                    }
                                    res.push(r);
                                }
                                Ok(exp) => res.push(CaseResult::violated(
                                    key.clone(),
                                    format!("value-mismatch/real/{kind}"),
                                    json!({"cfg": NAME, "mode": "real", "case": case, "kind": kind, "shape": format!("{sh:?}"), "asg": j,
                                           "expected_native": co(&exp), "got_circuit": co(&vals[a][0])}),
                                )),
                                Err(p) => res.push(CaseResult::inconclusive(key.clone(), format!("native folder panicked: {}", panic_site(&p)))),
                            }
                        }
                    }
                    Err(e) if e.starts_with("harness") => res.push(CaseResult::inconclusive(key, e)),
                    Err(e) => res.push(CaseResult::violated(key, format!("circuit-run-failed/real/{kind}/{e}"), json!({"cfg": NAME, "mode": "real", "case": case, "kind": kind, "error": e}))),
                }
            }
            res
        }

        pub fn one_case(seed: u64, idx: usize, tier: Tier, kind: &str) -> Vec<CaseResult> {
            match kind {
                "air" => air_case(seed, idx, tier),
                "direct" => direct_case(seed, idx, tier),
                _ => real_case(seed, idx, tier),
            }
        }

        pub fn replay_ir(mode: &str, ir: &AirIR, aj: &AsgJ) -> CaseResult {
            let o = if mode == "direct" { direct_standalone(ir, aj) } else { standalone(ir, aj) };
            match o {
                Outcome::Held => CaseResult::held("replay-ir", true),
                Outcome::Inc(w) => CaseResult::inconclusive("replay-ir", w),
                Outcome::Viol(s, e) => CaseResult::violated("replay-ir", s, json!({"cfg": NAME, "mode": mode, "ir": ir, "asg": aj, "extra": e})),
            }
        }
    };
}

mod bb {
    pub type SC = p3_circuit_prover::config::BabyBearConfig;
    pub type F = p3_baby_bear::BabyBear;
    pub type EF = p3_field::extension::BinomialExtensionField<F, 4>;
    pub type S = p3r_verif::fields::BbD4;
    pub const NAME: &str = "babybear-d4";
    pub const DD: usize = 4;
    body!();
    body2!();
    body3!();
    pub fn air_builders() -> Vec<Box<dyn NpoAirBuilder<SC, DD>>> {
        let mut v = p3_circuit_prover::batch_stark_prover::poseidon2_air_builders_d4::<SC>();
        v.extend(p3_circuit_prover::batch_stark_prover::recompose_air_builders::<SC, DD>(1, false));
        v
    }
    pub fn poseidon_circuit(rng: &mut SmallRng) -> Option<p3_circuit::Circuit<EF>> {
        use p3_circuit::ops::{Poseidon2Config, generate_poseidon2_trace, generate_recompose_trace};
        let mut b = CircuitBuilder::<EF>::new();
        b.enable_poseidon2_perm::<p3_poseidon2_circuit_air::BabyBearD4Width16, _>(
            generate_poseidon2_trace::<EF, p3_poseidon2_circuit_air::BabyBearD4Width16>,
            p3_baby_bear::default_babybear_poseidon2_16(),
        );
        b.enable_recompose::<F>(generate_recompose_trace::<F, EF>);
        let n = rng.random_range(1..=9usize);
        let inputs: Vec<ExprId> = (0..n).map(|_| b.public_input()).collect();
        let h = b.add_hash_slice(&Poseidon2Config::BABY_BEAR_D4_W16, &inputs, true).ok()?;
        let s = b.add(h[0], h[1]);
        let _ = b.mul(s, inputs[0]);
        b.build().ok()
    }
}

mod kb {
    pub type SC = p3_circuit_prover::config::KoalaBearConfig;
    pub type F = p3_koala_bear::KoalaBear;
    pub type EF = p3_field::extension::BinomialExtensionField<F, 4>;
    pub type S = p3r_verif::fields::KbD4;
    pub const NAME: &str = "koalabear-d4";
    pub const DD: usize = 4;
    body!();
    body2!();
    body3!();
    pub fn air_builders() -> Vec<Box<dyn NpoAirBuilder<SC, DD>>> {
        let mut v = p3_circuit_prover::batch_stark_prover::poseidon2_air_builders_d4::<SC>();
        v.extend(p3_circuit_prover::batch_stark_prover::recompose_air_builders::<SC, DD>(1, false));
        v
    }
    pub fn poseidon_circuit(rng: &mut SmallRng) -> Option<p3_circuit::Circuit<EF>> {
        use p3_circuit::ops::{Poseidon2Config, generate_poseidon2_trace, generate_recompose_trace};
        let mut b = CircuitBuilder::<EF>::new();
        b.enable_poseidon2_perm::<p3_poseidon2_circuit_air::KoalaBearD4Width16, _>(
            generate_poseidon2_trace::<EF, p3_poseidon2_circuit_air::KoalaBearD4Width16>,
            p3_koala_bear::default_koalabear_poseidon2_16(),
        );
        b.enable_recompose::<F>(generate_recompose_trace::<F, EF>);
        let n = rng.random_range(1..=9usize);
        let inputs: Vec<ExprId> = (0..n).map(|_| b.public_input()).collect();
        let h = b.add_hash_slice(&Poseidon2Config::KOALA_BEAR_D4_W16, &inputs, true).ok()?;
        let s = b.add(h[0], h[1]);
        let _ = b.mul(s, inputs[0]);
        b.build().ok()
    }
}

mod gl {
    pub type SC = p3_circuit_prover::config::GoldilocksConfig;
    pub type F = p3_goldilocks::Goldilocks;
    pub type EF = p3_field::extension::BinomialExtensionField<F, 2>;
    pub type S = p3r_verif::fields::GlD2;
    pub const NAME: &str = "goldilocks-d2";
    pub const DD: usize = 2;
    body!();
    body2!();
    body3!();
    pub fn air_builders() -> Vec<Box<dyn NpoAirBuilder<SC, DD>>> {
        let mut v = p3_circuit_prover::batch_stark_prover::poseidon2_air_builders_d2::<SC>();
        v.extend(p3_circuit_prover::batch_stark_prover::recompose_air_builders::<SC, DD>(1, false));
        v
    }
    pub fn poseidon_circuit(rng: &mut SmallRng) -> Option<p3_circuit::Circuit<EF>> {
        use p3_circuit::ops::{GoldilocksD2Width8, Poseidon2Config, generate_poseidon2_trace, generate_recompose_trace};
        use rand::SeedableRng;
        let mut r = SmallRng::seed_from_u64(1);
        let perm = p3_goldilocks::Poseidon2Goldilocks::<8>::new_from_rng_128(&mut r);
        let mut b = CircuitBuilder::<EF>::new();
        b.enable_poseidon2_perm_width_8::<GoldilocksD2Width8, _>(generate_poseidon2_trace::<EF, GoldilocksD2Width8>, perm);
        b.enable_recompose::<F>(generate_recompose_trace::<F, EF>);
        let n = rng.random_range(1..=6usize);
        let inputs: Vec<ExprId> = (0..n).map(|_| b.public_input()).collect();
        let h = b.add_hash_slice(&Poseidon2Config::GOLDILOCKS_D2_W8, &inputs, true).ok()?;
        let s = b.add(h[0], h[1]);
        let _ = b.mul(s, inputs[0]);
        b.build().ok()
    }
}

mod kbq {
    pub type SC = p3_test_utils::koala_bear_quintic_params::MyConfig;
    pub type F = p3_koala_bear::KoalaBear;
    pub type EF = p3_field::extension::QuinticTrinomialExtensionField<F>;
    pub type S = p3r_verif::fields::KbD5;
    pub const NAME: &str = "koalabear-d5-quintic";
    pub const DD: usize = 5;
    body!();
    body2!();
    body3!();
    pub fn air_builders() -> Vec<Box<dyn NpoAirBuilder<SC, DD>>> {
        p3_circuit_prover::batch_stark_prover::recompose_air_builders::<SC, DD>(1, false)
    }
    pub fn poseidon_circuit(_rng: &mut SmallRng) -> Option<p3_circuit::Circuit<EF>> {
        None
    }
}

const CFGS: [&str; 4] = ["babybear-d4", "goldilocks-d2", "koalabear-d5-quintic", "koalabear-d4"];

fn dispatch(cfg: &str, seed: u64, idx: usize, tier: Tier, kind: &str) -> Vec<CaseResult> {
    match cfg {
        "babybear-d4" => bb::one_case(seed, idx, tier, kind),
        "goldilocks-d2" => gl::one_case(seed, idx, tier, kind),
        "koalabear-d5-quintic" => kbq::one_case(seed, idx, tier, kind),
        _ => kb::one_case(seed, idx, tier, kind),
    }
}

fn replay(path: &std::path::Path) -> Vec<CaseResult> {
    let v: Value = serde_json::from_str(&std::fs::read_to_string(path).expect("replay file")).unwrap();
    let d = &v["detail"];
    let cfg = d["cfg"].as_str().unwrap_or("babybear-d4").to_string();
    let mode = d["mode"].as_str().unwrap_or("air").to_string();
    let mut out = vec![];
    // (1) the reduced AIR on its own
    if let (Ok(ir), Ok(aj)) = (serde_json::from_value::<AirIR>(d["ir"].clone()), serde_json::from_value::<AsgJ>(d["asg"].clone())) {
        out.push(match cfg.as_str() {
            "babybear-d4" => bb::replay_ir(&mode, &ir, &aj),
            "goldilocks-d2" => gl::replay_ir(&mode, &ir, &aj),
            "koalabear-d5-quintic" => kbq::replay_ir(&mode, &ir, &aj),
            _ => kb::replay_ir(&mode, &ir, &aj),
        });
    }
    // (2) the whole originating case (same generator stream, same surrounding compilations)
    let c = &d["case"];
    if let (Some(seed), Some(idx)) = (c["seed"].as_u64(), c["idx"].as_u64()) {
        let tier = if c["tier"].as_str() == Some("thorough") { Tier::Thorough } else { Tier::Quick };
        let kind = c["kind"].as_str().unwrap_or("air").to_string();
        out.extend(dispatch(&cfg, seed, idx as usize, tier, &kind));
    }
    out
}

fn main() {
    let args = parse_args();
    let mut rep = Report::new(
        "C13",
        "exploration",
        &args,
        "case = (AIR constraint DAG, assignment of all opened values / public values / selectors / challenges / alpha): \
         the folded-constraint target produced by RecursiveAir::eval_folded_circuit (or SymbolicCompiler directly for \
         hand-built Arc-shared DAGs) is compared with the accumulator of the native VerifierConstraintFolder(WithLookups) \
         (or an independent IR interpreter in direct mode); 3-4 assignments per DAG; non-trivial = the compiled symbolic \
         constraints contain >=1 shared (pointer-revisited) node and >=3 leaf kinds; distinct by DAG hash",
    );
    rep.assume("p3_uni_stark::VerifierConstraintFolder / p3_lookup VerifierConstraintFolderWithLookups + LogUpGadget are the reference");
    rep.assume("the IR interpreter (direct mode) is cross-checked against the native folder on every lookup-free AIR-mode case");
    if let Some(p) = &args.replay {
        let rs = replay(p);
        rep.add_all(rs);
        rep.finish(0);
    }
    let (seed, tier) = (args.seed, args.tier);
    let n_air = tier.pick(160_000usize, 1_600_000usize);
    let n_direct = tier.pick(80_000usize, 700_000usize);
    let n_real = tier.pick(2400usize, 20_000usize);
    rep.set_extra("cases", json!({"air": n_air, "direct": n_direct, "real": n_real}));
    if let Some(one) = args.extra.get("only") {
        let i: usize = one.parse().unwrap();
        let kind = args.extra.get("kind").cloned().unwrap_or_else(|| "air".into());
        let rs = dispatch(CFGS[i % CFGS.len()], seed, i, tier, &kind);
        for r in &rs {
            println!("{} {:?}", r.key, r.verdict);
        }
        rep.add_all(rs);
        rep.finish(0);
    }
    let total = n_air + n_direct + n_real;
    let results = run_cases_isolated(total, args.threads, |i| {
        // interleave the three kinds so that a worker thread alternates between them
        if i < n_real * 3 && i % 3 == 0 {
            let j = i / 3;
            dispatch(CFGS[j % CFGS.len()], seed, j, tier, "real")
        } else if i % 3 == 1 && i / 3 < n_direct {
            let j = i / 3;
            dispatch(CFGS[j % CFGS.len()], seed, j, tier, "direct")
        } else {
            dispatch(CFGS[i % CFGS.len()], seed, i, tier, "air")
        }
    });
    // minimise the first witness of every signature (deterministic: result order)
    let mut results = results;
    let mut seen = BTreeSet::new();
    let n_viol = results.iter().filter(|r| matches!(r.verdict, Verdict::Violated { .. })).count();
    // on a badly broken tree skip minimisation (it re-executes the code under test in this process)
    for r in results.iter_mut().filter(|_| n_viol <= 200) {
        if let Verdict::Violated { signature, detail } = &mut r.verdict {
            if seen.insert(signature.clone()) {
                let cfg = detail["cfg"].as_str().unwrap_or("").to_string();
                let m = match cfg.as_str() {
                    "babybear-d4" => bb::minimise(detail, signature),
                    "goldilocks-d2" => gl::minimise(detail, signature),
                    "koalabear-d5-quintic" => kbq::minimise(detail, signature),
                    _ => kb::minimise(detail, signature),
                };
                if let Some(m) = m {
                    *detail = m;
                }
            }
        }
    }
    rep.add_all(results);
    rep.finish(tier.pick(5_000, 200_000));
}
