//! Concrete-value AIR builder that records both constraint failures and bus interactions, a
//! type-erased view of "an AIR of /repo evaluated on explicit (main, preprocessed) rows", and the
//! generic perturbation probe used by every table family.
//!
//! `Rec` is the harness' equivalent of upstream `DebugConstraintBuilder` (same selector
//! conventions as `p3_test_utils::air_satisfaction::check_air_satisfies`: cyclic next row,
//! `is_transition = row != height-1`), except that it keeps the interactions pushed by
//! `Air::eval` instead of dropping them: the Const / Public / Recompose tables have *no*
//! constraints, their whole behaviour is the tuple they put on the `WitnessChecks` bus.

use std::collections::BTreeSet;

use p3_air::{Air, AirBuilder, BaseAir, DebugConstraintBuilder, RowWindow};
use p3_field::{Field, PrimeField64};
use p3_lookup::{Count, InteractionBuilder};
use p3_matrix::Matrix;
use p3_matrix::dense::RowMajorMatrix;
use serde_json::{Value, json};

/// One bus message pushed by `Air::eval` on a row.
#[derive(Clone, Debug)]
pub struct Msg<F> {
    pub wc_bus: bool,
    pub mult: F,
    pub fields: Vec<F>,
}

pub struct Rec<'a, F: Field> {
    main: RowWindow<'a, F>,
    prep: RowWindow<'a, F>,
    first: F,
    last: F,
    trans: F,
    pub n: usize,
    pub fails: usize,
    pub first_fail: usize,
    pub record: bool,
    pub msgs: Vec<Msg<F>>,
    pub local_interactions: usize,
}

impl<'a, F: Field> AirBuilder for Rec<'a, F> {
    type F = F;
    type Expr = F;
    type Var = F;
    type PreprocessedWindow = RowWindow<'a, F>;
    type MainWindow = RowWindow<'a, F>;
    type PublicVar = F;
    type PeriodicVar = F;

    fn main(&self) -> Self::MainWindow {
        self.main
    }
    fn preprocessed(&self) -> &Self::PreprocessedWindow {
        &self.prep
    }
    fn is_first_row(&self) -> F {
        self.first
    }
    fn is_last_row(&self) -> F {
        self.last
    }
    fn is_transition(&self) -> F {
        self.trans
    }
    fn assert_zero<I: Into<F>>(&mut self, x: I) {
        if x.into() != F::ZERO {
            if self.fails == 0 {
                self.first_fail = self.n;
            }
            self.fails += 1;
        }
        self.n += 1;
    }
}

impl<F: Field> InteractionBuilder for Rec<'_, F> {
    fn push_interaction<E: Into<F>>(
        &mut self,
        bus_name: &str,
        fields: impl IntoIterator<Item = E>,
        count: impl Into<Count<F>>,
    ) {
        if self.record {
            let (mult, _w) = count.into().into_parts();
            self.msgs.push(Msg {
                wc_bus: bus_name == "WitnessChecks",
                mult,
                fields: fields.into_iter().map(Into::into).collect(),
            });
        } else {
            fields.into_iter().for_each(drop);
        }
    }
    fn push_local_interaction(&mut self, tuples: impl IntoIterator<Item = (Vec<F>, Count<F>)>) {
        self.local_interactions += 1;
        tuples.into_iter().for_each(drop);
    }
}

/// Type-erased AIR of /repo.
pub trait TableAir<F: Field>: Send + Sync {
    fn eval_rec(&self, b: &mut Rec<'_, F>);
    fn prep_matrix(&self) -> RowMajorMatrix<F>;
    /// The repo's own checker (`p3_test_utils::air_satisfaction::check_air_satisfies`).
    fn repo_check(&self, main: &RowMajorMatrix<F>) -> Result<(), (usize, String)>;
}

impl<F: Field, A> TableAir<F> for A
where
    A: BaseAir<F> + Send + Sync + for<'a> Air<Rec<'a, F>> + for<'a> Air<DebugConstraintBuilder<'a, F, F>>,
{
    fn eval_rec(&self, b: &mut Rec<'_, F>) {
        <A as Air<Rec<'_, F>>>::eval(self, b)
    }
    fn prep_matrix(&self) -> RowMajorMatrix<F> {
        self.preprocessed_trace().expect("every table under test has a preprocessed trace")
    }
    fn repo_check(&self, main: &RowMajorMatrix<F>) -> Result<(), (usize, String)> {
        p3_test_utils::air_satisfaction::check_air_satisfies::<F, F, A>(self, main, &[])
    }
}

pub struct Tab<F> {
    pub main: RowMajorMatrix<F>,
    pub prep: RowMajorMatrix<F>,
}

impl<F: Field> Tab<F> {
    pub fn h(&self) -> usize {
        self.main.height()
    }
    pub fn mrow(&self, r: usize) -> &[F] {
        let w = self.main.width;
        &self.main.values[r * w..(r + 1) * w]
    }
    pub fn prow(&self, r: usize) -> &[F] {
        let w = self.prep.width;
        &self.prep.values[r * w..(r + 1) * w]
    }
    pub fn get(&self, r: usize, c: usize) -> F {
        self.main.values[r * self.main.width + c]
    }
    pub fn set(&mut self, r: usize, c: usize, v: F) {
        let w = self.main.width;
        self.main.values[r * w + c] = v;
    }
}

pub struct RowOutcome<F> {
    pub ok: bool,
    pub first_fail: usize,
    pub msgs: Vec<Msg<F>>,
}

/// Evaluate the real AIR on the window (row r, row r+1 cyclic).
pub fn eval_window<F: Field>(air: &dyn TableAir<F>, t: &Tab<F>, r: usize, record: bool) -> RowOutcome<F> {
    let h = t.h();
    let rn = (r + 1) % h;
    let mut b = Rec {
        main: RowWindow::from_two_rows(t.mrow(r), t.mrow(rn)),
        prep: RowWindow::from_two_rows(t.prow(r), t.prow(rn)),
        first: F::from_bool(r == 0),
        last: F::from_bool(r == h - 1),
        trans: F::from_bool(r != h - 1),
        n: 0,
        fails: 0,
        first_fail: 0,
        record,
        msgs: vec![],
        local_interactions: 0,
    };
    air.eval_rec(&mut b);
    RowOutcome { ok: b.fails == 0, first_fail: b.first_fail, msgs: b.msgs }
}

/// Independent description of what a table's rows mean.
pub trait Oracle<F: Field> {
    /// Does the defining relation of the operations on window (r, r+1 cyclic) hold?
    fn holds(&self, t: &Tab<F>, r: usize) -> bool;
    /// Tuples row r must put on the witness bus: (label of the claim, multiplicity, fields).
    fn msgs(&self, t: &Tab<F>, r: usize) -> Vec<(&'static str, F, Vec<F>)>;
}

pub fn canon_msgs<F: PrimeField64>(ms: impl Iterator<Item = (F, Vec<F>)>) -> Vec<(Vec<u64>, u64)> {
    let mut v: Vec<(Vec<u64>, u64)> = ms
        .filter(|(m, _)| *m != F::ZERO)
        .map(|(m, f)| (f.iter().map(|x| x.as_canonical_u64()).collect(), m.as_canonical_u64()))
        .collect();
    v.sort();
    v
}

#[derive(Clone, Debug)]
pub struct Probe {
    pub air_ok: bool,
    pub rel_ok: bool,
    pub msg_ok: bool,
    pub evals: u64,
    pub windows: Vec<usize>,
    pub air_fail_window: Option<(usize, usize)>,
    pub msg_detail: Option<Value>,
}

/// Apply `cells` (row, col, new value) to the main trace, evaluate every window that can see a
/// touched row with the real AIR and with the oracle, compare the bus messages of the touched
/// rows, and restore the trace.
pub fn probe<F: PrimeField64>(
    air: &dyn TableAir<F>,
    oracle: &dyn Oracle<F>,
    t: &mut Tab<F>,
    cells: &[(usize, usize, F)],
    bus_bad_rows: &BTreeSet<usize>,
) -> Probe {
    let h = t.h();
    let old: Vec<F> = cells.iter().map(|(r, c, _)| t.get(*r, *c)).collect();
    for (r, c, v) in cells {
        t.set(*r, *c, *v);
    }
    let touched: BTreeSet<usize> = cells.iter().map(|(r, _, _)| *r).collect();
    let mut windows: BTreeSet<usize> = BTreeSet::new();
    for r in &touched {
        windows.insert(*r);
        windows.insert((*r + h - 1) % h);
    }
    let mut air_ok = true;
    let mut rel_ok = true;
    let mut msg_ok = true;
    let mut evals = 0u64;
    let mut air_fail_window = None;
    let mut msg_detail = None;
    for w in &windows {
        let rec = touched.contains(w) && !bus_bad_rows.contains(w);
        let o = eval_window(air, t, *w, rec);
        evals += 1;
        if !o.ok && air_fail_window.is_none() {
            air_fail_window = Some((*w, o.first_fail));
        }
        air_ok &= o.ok;
        rel_ok &= oracle.holds(t, *w);
        if rec {
            let foreign = o.msgs.iter().any(|m| !m.wc_bus && m.mult != F::ZERO);
            let got = canon_msgs(o.msgs.into_iter().map(|m| (m.mult, m.fields)));
            let want = canon_msgs(oracle.msgs(t, *w).into_iter().map(|(_, m, f)| (m, f)));
            if got != want || foreign {
                msg_ok = false;
                if msg_detail.is_none() {
                    msg_detail = Some(json!({"row": w, "sent": got, "expected": want, "foreign_bus": foreign}));
                }
            }
        }
    }
    for ((r, c, _), v) in cells.iter().zip(old) {
        t.set(*r, *c, v);
    }
    Probe { air_ok, rel_ok, msg_ok, evals, windows: windows.into_iter().collect(), air_fail_window, msg_detail }
}

pub fn dump_rows<F: PrimeField64>(t: &Tab<F>, rows: &[usize]) -> Value {
    let f = |x: &[F]| x.iter().map(|v| v.as_canonical_u64()).collect::<Vec<_>>();
    Value::Array(
        rows.iter()
            .map(|r| json!({"row": r, "main": f(t.mrow(*r)), "prep": f(t.prow(*r))}))
            .collect(),
    )
}

/// Compare the tuples an (honest) row sends with the oracle's expectation.
/// Returns (labels of expected tuples that are not sent, unexpected tuples sent).
pub fn bus_diff<F: PrimeField64>(
    sent: Vec<Msg<F>>,
    want: Vec<(&'static str, F, Vec<F>)>,
) -> (Vec<&'static str>, Vec<(Vec<u64>, u64)>) {
    let mut got = canon_msgs(sent.iter().filter(|m| m.wc_bus).map(|m| (m.mult, m.fields.clone())));
    let foreign: Vec<(Vec<u64>, u64)> =
        canon_msgs(sent.iter().filter(|m| !m.wc_bus).map(|m| (m.mult, m.fields.clone())));
    let mut missing = vec![];
    for (label, m, f) in want {
        if m == F::ZERO {
            continue;
        }
        let c = (f.iter().map(|x| x.as_canonical_u64()).collect::<Vec<_>>(), m.as_canonical_u64());
        if let Some(pos) = got.iter().position(|g| *g == c) {
            got.remove(pos);
        } else {
            missing.push(label);
        }
    }
    got.extend(foreign);
    (missing, got)
}
