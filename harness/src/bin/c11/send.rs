//! Const / Public / Recompose tables. None has a constraint: a row's whole meaning is the tuple
//! it contributes to the `WitnessChecks` bus.
//!
//! Oracle (from the module docs of `const_air.rs`, `public_air.rs`, `recompose_air.rs` and
//! Appendix A): const/public row ⇒ exactly one tuple `(index, value coefficients)` with the
//! preprocessed multiplicity; recompose row ⇒ `(out_idx, out)` where
//! `out = Σ coeff_i · basis_i` (native extension arithmetic) and, on `recompose/coeff`, one tuple
//! `(coeff_idx_i, coeff_i embedded in the base field)` per coefficient.

use p3_circuit::WitnessId;
use p3_circuit::ops::recompose::RecomposeCircuitRow;
use p3_circuit::tables::{ConstTrace, PublicTrace};
use p3_circuit_prover::air::{ConstAir, PublicAir, RecomposeAir};
use p3_field::{BasedVectorSpace, PrimeCharacteristicRing, PrimeField64};
use p3_matrix::Matrix;
use p3r_verif::fields::Setup;
use p3r_verif::util::*;
use rand::RngExt;
use rand::rngs::SmallRng;
use serde::{Deserialize, Serialize};
use serde_json::{Value, json};

use crate::acc::{Acc, pert_json};
use crate::rec::{Oracle, Tab, TableAir, canon_msgs, dump_rows, eval_window, probe};
use std::collections::BTreeSet;

#[derive(Serialize, Deserialize, Clone, Debug)]
pub struct SendSpec {
    pub table: String,
    pub setup: String,
    pub lanes: usize,
    pub values: Vec<Vec<u64>>,
    pub idx: Vec<u32>,
    pub mult: Vec<u64>,
}

pub fn gen_send<S: Setup>(table: &str, rng: &mut SmallRng, tier: Tier) -> SendSpec {
    let lanes = if table == "const" { 1 } else { rng.random_range(1..=4usize) };
    let n = rng.random_range(1..=tier.pick(9usize, 20usize));
    let mut values = vec![];
    let mut idx = vec![];
    let mut mult = vec![];
    for i in 0..n {
        let mut c = vec![0u64; S::D];
        for (j, x) in c.iter_mut().enumerate() {
            *x = match rng.random_range(0..6u32) {
                0 => 0,
                1 if j == 0 => 1,
                _ => rng.random::<u64>() % S::order(),
            };
        }
        values.push(c);
        idx.push(i as u32 * 3 + rng.random_range(0..3u32));
        mult.push(rng.random_range(0..4u64));
    }
    SendSpec { table: table.to_string(), setup: S::NAME.to_string(), lanes, values, idx, mult }
}

struct SendOracle {
    d: usize,
    lanes: usize,
}

impl<F: PrimeField64> Oracle<F> for SendOracle {
    fn holds(&self, _t: &Tab<F>, _r: usize) -> bool {
        true
    }
    fn msgs(&self, t: &Tab<F>, r: usize) -> Vec<(&'static str, F, Vec<F>)> {
        let (m, p) = (t.mrow(r), t.prow(r));
        (0..self.lanes)
            .map(|l| {
                let mut f = vec![p[2 * l + 1]];
                f.extend_from_slice(&m[l * self.d..(l + 1) * self.d]);
                ("value", p[2 * l], f)
            })
            .collect()
    }
}

fn u64s<F: PrimeField64>(cells: &[(usize, usize, F)]) -> Vec<(usize, usize, u64)> {
    cells.iter().map(|(r, c, v)| (*r, *c, v.as_canonical_u64())).collect()
}

fn parse_cells<F: PrimeField64>(p: &Value) -> Vec<(usize, usize, F)> {
    p["cells"]
        .as_array()
        .unwrap()
        .iter()
        .map(|c| (c[0].as_u64().unwrap() as usize, c[1].as_u64().unwrap() as usize, F::from_u64(c[2].as_u64().unwrap())))
        .collect()
}

/// Shared driver for the constraint-free tables.
#[allow(clippy::too_many_arguments)]
fn drive<F: PrimeField64>(
    mut acc: Acc,
    case_key: String,
    family: &'static str,
    spec_json: Value,
    air: &dyn TableAir<F>,
    or: &dyn Oracle<F>,
    mut tab: Tab<F>,
    honest_expected: Vec<Vec<(Vec<u64>, u64)>>,
    kind_of: &dyn Fn(usize, usize) -> (String, String, String),
    rng: &mut SmallRng,
    only: Option<&Value>,
    order: u64,
) -> Vec<CaseResult> {
    let h = tab.h();
    let detail = |tab: &Tab<F>, rows: &[usize], extra: Value| -> Value {
        json!({"family": family, "spec": spec_json, "height": h, "rows": dump_rows(tab, rows), "extra": extra})
    };
    if let Some(p) = only {
        let cells = parse_cells::<F>(p);
        let pr = probe(air, or, &mut tab, &cells, &BTreeSet::new());
        let rows = pr.windows.clone();
        acc.judge(
            p["kind"].as_str().unwrap_or("?"),
            p["class"].as_str().unwrap_or("?"),
            p["column"].as_str().unwrap_or("?"),
            &pr,
            || detail(&tab, &rows, json!({"pert": p, "probe": format!("{pr:?}")})),
        );
        return acc.finish(&case_key);
    }
    // honest rows: accepted, and the tuples are the ones the trace (not the matrix) denotes
    let mut my_ok = true;
    for r in 0..h {
        let o = eval_window(air, &tab, r, true);
        acc.evals += 1;
        my_ok &= o.ok;
        let (kind, _, _) = kind_of(r, 0);
        *acc.honest_rows.entry(kind.clone()).or_default() += 1;
        let got = canon_msgs(o.msgs.into_iter().map(|m| (m.mult, m.fields)));
        let mut want = honest_expected[r].clone();
        want.retain(|(_, m)| *m != 0);
        want.sort();
        if !o.ok || got != want {
            acc.violation(
                format!("{case_key}:honest{r}"),
                format!("rejects-valid-row/{kind}/{}", acc.d),
                || detail(&tab, &[r], json!({"what": "honest row rejected or wrong tuple", "air_ok": o.ok, "sent": got, "expected": want})),
            );
        }
    }
    match guarded(|| air.repo_check(&tab.main)) {
        Ok(res) if res.is_ok() == my_ok => {}
        Ok(res) => return vec![CaseResult::inconclusive(case_key, format!("builder disagreement {:?}", res.err()))],
        Err(e) => return vec![CaseResult::inconclusive(case_key, format!("check_air_satisfies panicked: {e}"))],
    }
    if !acc.results.is_empty() {
        return acc.finish(&case_key);
    }
    let w = tab.main.width;
    for r in 0..h {
        for c in 0..w {
            let (kind, class, column) = kind_of(r, c);
            let old = tab.get(r, c);
            let mut rv = F::from_u64(rng.random::<u64>() % order);
            if rv == old {
                rv += F::ONE;
            }
            for (label, v) in [("+1", old + F::ONE), ("rand", rv)] {
                let cells = vec![(r, c, v)];
                let pr = probe(air, or, &mut tab, &cells, &BTreeSet::new());
                let rows = pr.windows.clone();
                acc.judge(&kind, &class, &column, &pr, || {
                    detail(
                        &tab,
                        &rows,
                        json!({"pert": pert_json(&u64s(&cells), label, &kind, &class, &column),
                               "air_ok": pr.air_ok, "bus_ok": pr.msg_ok, "bus": pr.msg_detail}),
                    )
                });
            }
        }
    }
    acc.finish(&case_key)
}

pub fn run_send<S: Setup, const D: usize>(
    spec: &SendSpec,
    rng: &mut SmallRng,
    only: Option<&Value>,
    sample: bool,
) -> Vec<CaseResult> {
    let n = spec.values.len();
    let lanes = spec.lanes;
    let kindname = spec.table.clone();
    let mut acc = Acc::new("send", crate::acc::d_label(S::NAME).to_string(), format!("{}:{}:lanes={lanes}", S::NAME, spec.table));
    let case_key = format!("send:{}:{}:{}", spec.table, S::NAME, fnv(&serde_json::to_string(spec).unwrap()));
    let values: Vec<S::E> = spec.values.iter().map(|v| S::el(v)).collect();
    let index: Vec<WitnessId> = spec.idx.iter().map(|i| WitnessId(*i)).collect();
    let prep: Vec<S::B> = (0..n)
        .flat_map(|i| [S::B::from_u64(spec.mult[i]), S::B::from_u64(spec.idx[i] as u64 * D as u64)])
        .collect();
    let built = guarded(|| -> (Box<dyn TableAir<S::B>>, Tab<S::B>) {
        if spec.table == "const" {
            let main = ConstAir::<S::B, D>::trace_to_matrix(&ConstTrace { index: index.clone(), values: values.clone() }, 1);
            let air = ConstAir::<S::B, D>::new_with_preprocessed(main.height(), prep.clone());
            let p = TableAir::<S::B>::prep_matrix(&air);
            (Box::new(air), Tab { main, prep: p })
        } else {
            let main =
                PublicAir::<S::B, D>::trace_to_matrix(&PublicTrace { index: index.clone(), values: values.clone() }, lanes, 1);
            let air = PublicAir::<S::B, D>::new_with_preprocessed(n, lanes, prep.clone());
            let p = TableAir::<S::B>::prep_matrix(&air);
            (Box::new(air), Tab { main, prep: p })
        }
    });
    let (air, tab) = match built {
        Ok(x) => x,
        Err(p) => {
            return vec![CaseResult::violated(
                case_key,
                format!("tracegen-panic/{}/{}", spec.table, crate::acc::site(&p)),
                json!({"family": "send", "spec": spec, "panic": p}),
            )];
        }
    };
    if tab.main.height() != tab.prep.height() || tab.main.width != lanes * D || tab.prep.width != lanes * 2 {
        return vec![CaseResult::inconclusive(case_key, "send table shape differs from the documented layout")];
    }
    let h = tab.h();
    // what the honest trace denotes, computed from the trace (not from the matrix)
    let honest: Vec<Vec<(Vec<u64>, u64)>> = (0..h)
        .map(|r| {
            (0..lanes)
                .filter_map(|l| {
                    let i = r * lanes + l;
                    (i < n).then(|| {
                        let mut f = vec![spec.idx[i] as u64 * D as u64];
                        f.extend(S::coeffs(&values[i]));
                        (f, spec.mult[i])
                    })
                })
                .collect()
        })
        .collect();
    if sample {
        acc.sample = Some(json!({"family": "send", "table": spec.table, "setup": S::NAME, "lanes": lanes, "ops": n, "height": h}));
    }
    let kn = kindname.clone();
    let kind_of = move |r: usize, c: usize| -> (String, String, String) {
        let lane = c / D;
        let k = if r * lanes + lane < n { kn.clone() } else { format!("{kn}-pad") };
        (k, "value".to_string(), format!("L{lane}.value[{}]", c % D))
    };
    let or = SendOracle { d: D, lanes };
    drive::<S::B>(
        acc,
        case_key,
        "send",
        json!(spec),
        air.as_ref(),
        &or,
        tab,
        honest,
        &kind_of,
        rng,
        only,
        S::order(),
    )
}

// ---------------------------------------------------------------------------------------------

#[derive(Serialize, Deserialize, Clone, Debug)]
pub struct RecSpec {
    pub setup: String,
    pub lanes: usize,
    pub coeff: bool,
    /// D base-field coefficient values per op
    pub values: Vec<Vec<u64>>,
    pub out_idx: Vec<u32>,
    pub out_mult: Vec<i64>,
    pub coeff_idx: Vec<Vec<u32>>,
    pub coeff_mult: Vec<Vec<u64>>,
}

pub fn gen_recompose<S: Setup>(coeff: bool, rng: &mut SmallRng, tier: Tier) -> RecSpec {
    let lanes = rng.random_range(1..=4usize);
    let n = rng.random_range(1..=tier.pick(8usize, 16usize));
    let mut s = RecSpec {
        setup: S::NAME.to_string(),
        lanes,
        coeff,
        values: vec![],
        out_idx: vec![],
        out_mult: vec![],
        coeff_idx: vec![],
        coeff_mult: vec![],
    };
    for i in 0..n {
        s.values.push((0..S::D).map(|_| if rng.random_range(0..5u32) == 0 { 0 } else { rng.random::<u64>() % S::order() }).collect());
        s.out_idx.push(100 + i as u32);
        // duplicate NPO outputs read (-1), otherwise create with the number of readers
        s.out_mult.push(if rng.random_range(0..6u32) == 0 { -1 } else { rng.random_range(0..4i64) });
        s.coeff_idx.push((0..S::D).map(|j| 200 + (i * S::D + j) as u32).collect());
        s.coeff_mult.push((0..S::D).map(|_| rng.random_range(0..3u64)).collect());
    }
    s
}

struct RecOracle<S: Setup> {
    lanes: usize,
    coeff: bool,
    _p: std::marker::PhantomData<S>,
}

impl<S: Setup> Oracle<S::B> for RecOracle<S> {
    fn holds(&self, _t: &Tab<S::B>, _r: usize) -> bool {
        true
    }
    fn msgs(&self, t: &Tab<S::B>, r: usize) -> Vec<(&'static str, S::B, Vec<S::B>)> {
        let d = S::D;
        let pw = if self.coeff { 2 + 2 * d } else { 2 };
        let (m, p) = (t.mrow(r), t.prow(r));
        let mut out = vec![];
        for l in 0..self.lanes {
            let cs = &m[l * d..(l + 1) * d];
            // out = Σ coeff_i · basis_i, natively
            let mut e = S::E::ZERO;
            for (i, c) in cs.iter().enumerate() {
                e += <S::E as BasedVectorSpace<S::B>>::ith_basis_element(i).unwrap() * S::E::from(*c);
            }
            let mut f = vec![p[l * pw]];
            f.extend_from_slice(<S::E as BasedVectorSpace<S::B>>::as_basis_coefficients_slice(&e));
            out.push(("out", p[l * pw + 1], f));
            if self.coeff {
                for i in 0..d {
                    // coefficient i as an element of the base field inside the extension
                    let ce = S::E::from(cs[i]);
                    let mut f = vec![p[l * pw + 2 + 2 * i]];
                    f.extend_from_slice(<S::E as BasedVectorSpace<S::B>>::as_basis_coefficients_slice(&ce));
                    out.push(("coeff", p[l * pw + 2 + 2 * i + 1], f));
                }
            }
        }
        out
    }
}

pub fn run_recompose<S: Setup, const D: usize>(
    spec: &RecSpec,
    rng: &mut SmallRng,
    only: Option<&Value>,
    sample: bool,
) -> Vec<CaseResult> {
    let n = spec.values.len();
    let lanes = spec.lanes;
    let kindname = if spec.coeff { "recompose/coeff" } else { "recompose" };
    let mut acc = Acc::new("recompose", crate::acc::d_label(S::NAME).to_string(), format!("{}:{kindname}:lanes={lanes}", S::NAME));
    let case_key = format!("recompose:{}:{}:{}", spec.coeff, S::NAME, fnv(&serde_json::to_string(spec).unwrap()));
    let fi = |v: i64| if v < 0 { -S::B::from_u64((-v) as u64) } else { S::B::from_u64(v as u64) };
    let mut prep: Vec<S::B> = vec![];
    for i in 0..n {
        prep.push(S::B::from_u64(spec.out_idx[i] as u64 * D as u64));
        prep.push(fi(spec.out_mult[i]));
        if spec.coeff {
            for j in 0..D {
                prep.push(S::B::from_u64(spec.coeff_idx[i][j] as u64 * D as u64));
                prep.push(S::B::from_u64(spec.coeff_mult[i][j]));
            }
        }
    }
    let rows: Vec<RecomposeCircuitRow<S::B>> = (0..n)
        .map(|i| RecomposeCircuitRow {
            input_wids: spec.coeff_idx[i].iter().map(|w| WitnessId(*w)).collect(),
            output_wid: WitnessId(spec.out_idx[i]),
            values: spec.values[i].iter().map(|v| S::B::from_u64(*v)).collect(),
        })
        .collect();
    let built = guarded(|| {
        let main = RecomposeAir::<S::B, D>::trace_to_matrix(&rows, lanes);
        let air = RecomposeAir::<S::B, D>::new_with_preprocessed(lanes, prep.clone(), 1, spec.coeff);
        let p = TableAir::<S::B>::prep_matrix(&air);
        (air, Tab { main, prep: p })
    });
    let (air, tab) = match built {
        Ok(x) => x,
        Err(p) => {
            return vec![CaseResult::violated(
                case_key,
                format!("tracegen-panic/{kindname}/{}", crate::acc::site(&p)),
                json!({"family": "recompose", "spec": spec, "panic": p}),
            )];
        }
    };
    let pw = if spec.coeff { 2 + 2 * D } else { 2 };
    if tab.main.height() != tab.prep.height() || tab.main.width != lanes * D || tab.prep.width != lanes * pw {
        return vec![CaseResult::inconclusive(case_key, "recompose table shape differs from the documented layout")];
    }
    let h = tab.h();
    let m = |v: i64| if v < 0 { S::order() - (-v) as u64 } else { v as u64 };
    let honest: Vec<Vec<(Vec<u64>, u64)>> = (0..h)
        .map(|r| {
            let mut v = vec![];
            for l in 0..lanes {
                let i = r * lanes + l;
                if i >= n {
                    continue;
                }
                // the extension element the coefficients recompose to, from the spec values
                let e = S::el(&spec.values[i]);
                let mut f = vec![spec.out_idx[i] as u64 * D as u64];
                f.extend(S::coeffs(&e));
                v.push((f, m(spec.out_mult[i])));
                if spec.coeff {
                    for j in 0..D {
                        let mut f = vec![spec.coeff_idx[i][j] as u64 * D as u64, spec.values[i][j]];
                        f.extend(std::iter::repeat_n(0u64, D - 1));
                        v.push((f, spec.coeff_mult[i][j]));
                    }
                }
            }
            v
        })
        .collect();
    if sample {
        acc.sample = Some(json!({"family": "recompose", "coeff": spec.coeff, "setup": S::NAME, "lanes": lanes, "ops": n, "height": h}));
    }
    let kind_of = move |r: usize, c: usize| -> (String, String, String) {
        let lane = c / D;
        let k = if r * lanes + lane < n { kindname.to_string() } else { format!("{kindname}-pad") };
        (k, "coeff".to_string(), format!("L{lane}.coeff[{}]", c % D))
    };
    let or = RecOracle::<S> { lanes, coeff: spec.coeff, _p: Default::default() };
    drive::<S::B>(
        acc,
        case_key,
        "recompose",
        json!(spec),
        &air,
        &or,
        tab,
        honest,
        &kind_of,
        rng,
        only,
        S::order(),
    )
}
