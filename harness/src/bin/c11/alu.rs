//! ALU table: add / mul / bool / mul-add / Horner (single step and packed k = 2..5).
//!
//! Honest rows: an `AluTrace` whose values are computed with native `p3_field` extension
//! arithmetic, per-op preprocessed data in the 13-column format `common.rs` produces, laid out by
//! the repo's own `AluAir::trace_to_matrix` / `preprocessed_trace` (schedule, packing, extras).
//!
//! Oracle: reads the documented column layout (module docs of `alu_air.rs`) and evaluates the
//! defining relation of every lane with native arithmetic of `S::E`:
//!   add a+b=out · mul a·b=out · bool a∈{0,1} (base element) · mul-add a·b+c=out ·
//!   Horner out = acc·b + c − a with acc = previous row's out of the lane, and for a packed row
//!   of arity k the k-fold iteration of that step (never using b²) together with the defined
//!   values of the auxiliary cells (b_sq = b², int_j = accumulator after 2(j+1) steps).
//! Bus awareness: an operand the relation reads whose cell is *not* on the witness bus
//! (effective multiplicity 0) but whose witness index is the one of an operand that *is* on the
//! bus must equal that operand's cell – otherwise the relation has been checked on a value that
//! is not the witness (this is how `out = a` of a bool check enters).

use p3_circuit::tables::AluTrace;
use p3_circuit::{AluOpKind, WitnessId};
use p3_circuit_prover::air::{AluAir, AluExtMulKind};
use p3_circuit_prover::field_params::ExtractBinomialW;
use p3_field::{BasedVectorSpace, PrimeCharacteristicRing, PrimeField64};
use p3_matrix::Matrix;
use p3r_verif::fields::Setup;
use p3r_verif::util::*;
use rand::RngExt;
use rand::rngs::SmallRng;
use serde::{Deserialize, Serialize};
use serde_json::{Value, json};

use crate::acc::{Acc, pert_json};
use crate::rec::{Oracle, Tab, TableAir, bus_diff, dump_rows, eval_window, probe};

#[derive(Serialize, Deserialize, Clone, Debug)]
pub struct AluOpS {
    /// 0 add, 1 mul, 2 bool, 3 mul-add, 4 horner
    pub kind: u8,
    pub v: [Vec<u64>; 4],
    pub idx: [u32; 4],
    pub mult_b: i64,
    pub mult_out: i64,
    pub a_rd: i64,
    pub c_rd: i64,
}

#[derive(Serialize, Deserialize, Clone, Debug)]
pub struct AluSpec {
    pub setup: String,
    pub lanes: usize,
    pub k_max: usize,
    pub ops: Vec<AluOpS>,
}

fn fi<S: Setup>(v: i64) -> S::B {
    if v < 0 { -S::B::from_u64((-v) as u64) } else { S::B::from_u64(v as u64) }
}

pub fn rand_b<S: Setup>(rng: &mut SmallRng) -> S::B {
    S::B::from_u64(rng.random::<u64>() % S::B::ORDER_U64)
}

fn rand_e<S: Setup>(rng: &mut SmallRng) -> S::E {
    let mut c = vec![0u64; S::D];
    match rng.random_range(0..10u32) {
        0 => {}
        1 => c[0] = 1,
        2 => c[0] = rng.random::<u64>() % S::order(),
        _ => {
            for x in c.iter_mut() {
                *x = rng.random::<u64>() % S::order();
            }
        }
    }
    S::el(&c)
}

/// Generate an honest op list: random singles and Horner runs (packable and not).
pub fn gen_spec<S: Setup>(rng: &mut SmallRng, tier: Tier) -> AluSpec {
    let lanes = rng.random_range(1..=4usize);
    let k_max = rng.random_range(2..=5usize);
    let n_target = rng.random_range(4..=tier.pick(16usize, 26usize));
    let mut ops: Vec<AluOpS> = vec![];
    let mut next_wid = 8u32;
    let mut last_was_chain = false;
    let co = |e: &S::E| S::coeffs(e);
    while ops.len() < n_target {
        let mut fresh = || {
            next_wid += 1;
            next_wid
        };
        let pick = if last_was_chain { rng.random_range(0..8u32) } else { rng.random_range(0..13u32) };
        let reads = rng.random_range(0..3i64);
        match pick {
            0 | 1 => {
                // add; sometimes the backward (sub) encoding where b is the created witness
                let (a, b) = (rand_e::<S>(rng), rand_e::<S>(rng));
                let out = a + b;
                let back = rng.random_range(0..4u32) == 0;
                ops.push(AluOpS {
                    kind: 0,
                    v: [co(&a), co(&b), co(&S::E::ZERO), co(&out)],
                    idx: [fresh(), fresh(), 0, fresh()],
                    mult_b: if back { reads } else { -1 },
                    mult_out: if back { -1 } else { reads },
                    a_rd: 1,
                    c_rd: 0,
                });
                last_was_chain = false;
            }
            2 | 3 => {
                let (a, b) = (rand_e::<S>(rng), rand_e::<S>(rng));
                let out = a * b;
                let back = rng.random_range(0..4u32) == 0;
                ops.push(AluOpS {
                    kind: 1,
                    v: [co(&a), co(&b), co(&S::E::ZERO), co(&out)],
                    idx: [fresh(), fresh(), 0, fresh()],
                    mult_b: if back { reads } else { -1 },
                    mult_out: if back { -1 } else { reads },
                    a_rd: 1,
                    c_rd: 0,
                });
                last_was_chain = false;
            }
            4 | 5 => {
                // assert_bool(x): a = c = out = x (one witness), b = the zero constant.
                // x already defined: all three cells read the bus. x a private input / hint output
                // whose first use this is: `out` creates the bus tuple, a and c are skipped
                // (circuit.rs `a_aliased_by_out`).
                let bit = rng.random_range(0..2u64);
                let x = S::el(&[bit]);
                let w = fresh();
                let first_use = rng.random_range(0..2u32) == 0;
                ops.push(AluOpS {
                    kind: 2,
                    v: [co(&x), co(&S::E::ZERO), co(&x), co(&x)],
                    idx: [w, 0, w, w],
                    mult_b: -1,
                    mult_out: if first_use { reads } else { -1 },
                    a_rd: if first_use { 0 } else { 1 },
                    c_rd: if first_use { 0 } else { 1 },
                });
                last_was_chain = false;
            }
            6 | 7 => {
                let (mut a, b, c) = (rand_e::<S>(rng), rand_e::<S>(rng), rand_e::<S>(rng));
                // `connect(mul_add(a, b, x), x)` with x first used here: c and out are one witness,
                // c is skipped and out creates the bus tuple (circuit.rs `c_aliased_by_out`)
                let c_is_out = rng.random_range(0..8u32) == 0;
                if c_is_out {
                    a = S::E::ZERO;
                }
                let out = a * b + c;
                // a as private-input creator (a_state = 2) now and then
                let a_creator = rng.random_range(0..5u32) == 0;
                let (wc, wo) = (fresh(), fresh());
                ops.push(AluOpS {
                    kind: 3,
                    v: [co(&a), co(&b), co(&c), co(&out)],
                    idx: [fresh(), fresh(), if c_is_out { wo } else { wc }, wo],
                    mult_b: -1,
                    mult_out: reads,
                    a_rd: if a_creator { -(1 + reads) } else { 1 },
                    c_rd: if c_is_out { 0 } else { 1 },
                });
                last_was_chain = false;
            }
            _ => {
                // Horner run; the accumulator entering a run is 0 (separator row semantics).
                let len = rng.random_range(1..=2 * k_max + 1);
                let shared_b = rng.random_range(0..4u32) != 0;
                let b0 = rand_e::<S>(rng);
                let b_w = fresh();
                let change_at = if rng.random_range(0..3u32) == 0 { rng.random_range(0..len) } else { len };
                let b1 = rand_e::<S>(rng);
                let b1_w = fresh();
                let mut acc = S::E::ZERO;
                for j in 0..len {
                    let (b, bw) = if !shared_b {
                        (rand_e::<S>(rng), fresh())
                    } else if j >= change_at {
                        (b1, b1_w)
                    } else {
                        (b0, b_w)
                    };
                    let (a, c) = (rand_e::<S>(rng), rand_e::<S>(rng));
                    let out = acc * b + c - a;
                    ops.push(AluOpS {
                        kind: 4,
                        v: [co(&a), co(&b), co(&c), co(&out)],
                        idx: [fresh(), bw, fresh(), fresh()],
                        mult_b: -1,
                        mult_out: rng.random_range(0..3i64),
                        a_rd: 1,
                        c_rd: 1,
                    });
                    acc = out;
                }
                last_was_chain = true;
            }
        }
    }
    AluSpec { setup: S::NAME.to_string(), lanes, k_max, ops }
}

#[derive(Clone, Copy)]
pub struct Lay {
    pub d: usize,
    pub lanes: usize,
    pub k_max: usize,
    pub num_int: usize,
}

impl Lay {
    fn op(&self, lane: usize, o: usize) -> usize {
        lane * 4 * self.d + o * self.d
    }
    fn extra(&self) -> usize {
        self.lanes * 4 * self.d
    }
    fn int(&self, j: usize) -> usize {
        self.extra() + j * self.d
    }
    fn ac(&self) -> usize {
        self.extra() + self.num_int * self.d
    }
    fn a_t(&self, t: usize) -> usize {
        self.ac() + 2 * (t - 1) * self.d
    }
    fn c_t(&self, t: usize) -> usize {
        self.a_t(t) + self.d
    }
    fn bsq(&self) -> usize {
        self.ac() + 2 * (self.k_max - 1) * self.d
    }
    fn main_w(&self) -> usize {
        self.bsq() + self.d
    }
    fn pl(&self, lane: usize) -> usize {
        lane * 13
    }
    fn xp(&self) -> usize {
        self.lanes * 13
    }
    fn sel_k(&self, k: usize) -> usize {
        self.xp() + (k - 2)
    }
    fn step(&self, t: usize) -> usize {
        self.xp() + (self.k_max - 1) + 6 * (t - 1)
    }
    fn prep_w(&self) -> usize {
        self.xp() + 7 * (self.k_max - 1)
    }
}

pub struct AluOracle<S: Setup> {
    pub lay: Lay,
    _p: std::marker::PhantomData<S>,
}

fn ext<S: Setup>(row: &[S::B], off: usize) -> S::E {
    <S::E as BasedVectorSpace<S::B>>::from_basis_coefficients_slice(&row[off..off + S::D]).unwrap()
}

fn is01<S: Setup>(x: S::B, what: &str) -> bool {
    if x == S::B::ZERO {
        false
    } else if x == S::B::ONE {
        true
    } else {
        panic!("unsupported selector value in {what}")
    }
}

impl<S: Setup> AluOracle<S> {
    fn packed_k(&self, p: &[S::B]) -> Option<usize> {
        let mut k = None;
        for kk in 2..=self.lay.k_max {
            if is01::<S>(p[self.lay.sel_k(kk)], "sel_k") {
                assert!(k.is_none(), "two packed-arity selectors");
                k = Some(kk);
            }
        }
        k
    }
    /// (kind label, a, b, c, out selectors decoded) of a lane on a row.
    pub fn lane_kind(&self, p: &[S::B], lane: usize) -> &'static str {
        let pl = &p[self.lay.pl(lane)..self.lay.pl(lane) + 13];
        let active = -pl[0];
        if active == S::B::ZERO {
            assert!(pl[1..5].iter().all(|x| *x == S::B::ZERO), "selector on idle lane");
            return "idle";
        }
        assert!(active == S::B::ONE, "mult_a not in {{0,-1}}");
        let s: Vec<bool> = (1..5).map(|j| is01::<S>(pl[j], "sel")).collect();
        assert!(s.iter().filter(|x| **x).count() <= 1, "selectors not one-hot");
        if s[0] {
            "add"
        } else if s[1] {
            "bool"
        } else if s[2] {
            "mul-add"
        } else if s[3] {
            if lane == 0 {
                match self.packed_k(p) {
                    Some(2) => "horner-k2",
                    Some(3) => "horner-k3",
                    Some(4) => "horner-k4",
                    Some(5) => "horner-k5",
                    Some(_) => "horner-k6+",
                    None => "horner1",
                }
            } else {
                "horner1"
            }
        } else {
            "mul"
        }
    }
    /// Effective bus multiplicity of the four lane operands.
    fn eff(&self, p: &[S::B], lane: usize) -> [S::B; 4] {
        let pl = &p[self.lay.pl(lane)..self.lay.pl(lane) + 13];
        [pl[0] * pl[11], pl[9], pl[0] * pl[12], pl[10]]
    }
    pub fn role(&self, p: &[S::B], lane: usize, o: usize) -> &'static str {
        let e = self.eff(p, lane)[o];
        if e == S::B::ZERO {
            "offbus"
        } else if e.as_canonical_u64() > S::B::ORDER_U64 / 2 {
            "reader"
        } else {
            "creator"
        }
    }
    fn step(&self, m: &[S::B], x: S::E, b: S::E, t: usize) -> S::E {
        // t = 0 uses the lane cells, t >= 1 the (a_t, c_t) extras
        let (a, c) = if t == 0 {
            (ext::<S>(m, self.lay.op(0, 0)), ext::<S>(m, self.lay.op(0, 2)))
        } else {
            (ext::<S>(m, self.lay.a_t(t)), ext::<S>(m, self.lay.c_t(t)))
        };
        x * b + c - a
    }
}

impl<S: Setup> Oracle<S::B> for AluOracle<S> {
    fn holds(&self, t: &Tab<S::B>, r: usize) -> bool {
        let l = &self.lay;
        let h = t.h();
        let rn = (r + 1) % h;
        let (m, mn, p, pn) = (t.mrow(r), t.mrow(rn), t.prow(r), t.prow(rn));
        for lane in 0..l.lanes {
            let kind = self.lane_kind(p, lane);
            let v: [S::E; 4] = core::array::from_fn(|o| ext::<S>(m, l.op(lane, o)));
            let (a, b, c, out) = (v[0], v[1], v[2], v[3]);
            let reads: &[usize] = match kind {
                "add" => {
                    if a + b != out {
                        return false;
                    }
                    &[0, 1, 3]
                }
                "mul" => {
                    if a * b != out {
                        return false;
                    }
                    &[0, 1, 3]
                }
                "bool" => {
                    if !(a == S::E::ZERO || a == S::E::ONE) {
                        return false;
                    }
                    &[0]
                }
                "mul-add" => {
                    if a * b + c != out {
                        return false;
                    }
                    &[0, 1, 2, 3]
                }
                "idle" => &[],
                _ => &[0, 1, 2, 3], // horner: relation lives in the transition into this row
            };
            // an off-bus operand the relation reads must carry the witness value of its index
            let eff = self.eff(p, lane);
            let pl = &p[l.pl(lane)..l.pl(lane) + 13];
            for &x in reads {
                if eff[x] != S::B::ZERO {
                    continue;
                }
                for y in 0..4 {
                    if y != x && eff[y] != S::B::ZERO && pl[5 + y] == pl[5 + x] && v[x] != v[y] {
                        return false;
                    }
                }
            }
            // transition: Horner step(s) of the next row start from this row's out
            let pnl = &pn[l.pl(lane)..l.pl(lane) + 13];
            let next_horner = is01::<S>(pnl[4], "sel_horner");
            let nb = ext::<S>(mn, l.op(lane, 1));
            let nout = ext::<S>(mn, l.op(lane, 3));
            if lane == 0 {
                match self.packed_k(pn) {
                    Some(k) => {
                        let acc2 = self.step(mn, self.step(mn, out, nb, 0), nb, 1);
                        let target = if k == 2 { nout } else { ext::<S>(mn, l.int(0)) };
                        if acc2 != target {
                            return false;
                        }
                    }
                    None => {
                        if next_horner && self.step(mn, out, nb, 0) != nout {
                            return false;
                        }
                    }
                }
            } else if next_horner {
                let (na, nc) = (ext::<S>(mn, l.op(lane, 0)), ext::<S>(mn, l.op(lane, 2)));
                if out * nb + nc - na != nout {
                    return false;
                }
            }
        }
        // packed row: auxiliary cells and the remaining steps
        if let Some(k) = self.packed_k(p) {
            let b = ext::<S>(m, l.op(0, 1));
            let out = ext::<S>(m, l.op(0, 3));
            if ext::<S>(m, l.bsq()) != b * b {
                return false;
            }
            let mut s = 2usize;
            let mut slot = 0usize;
            while s < k {
                let cur = ext::<S>(m, l.int(slot));
                if s + 1 < k {
                    let v = self.step(m, self.step(m, cur, b, s), b, s + 1);
                    if s + 2 >= k {
                        if v != out {
                            return false;
                        }
                    } else {
                        if v != ext::<S>(m, l.int(slot + 1)) {
                            return false;
                        }
                        slot += 1;
                    }
                    s += 2;
                } else {
                    if self.step(m, cur, b, s) != out {
                        return false;
                    }
                    s += 1;
                }
            }
        }
        true
    }

    fn msgs(&self, t: &Tab<S::B>, r: usize) -> Vec<(&'static str, S::B, Vec<S::B>)> {
        let l = &self.lay;
        let (m, p) = (t.mrow(r), t.prow(r));
        let mut out = vec![];
        for lane in 0..l.lanes {
            let eff = self.eff(p, lane);
            for o in 0..4 {
                let mut f = vec![p[l.pl(lane) + 5 + o]];
                f.extend_from_slice(&m[l.op(lane, o)..l.op(lane, o) + l.d]);
                out.push((["a", "b", "c", "out"][o], eff[o], f));
            }
        }
        for tt in 1..l.k_max {
            let s = l.step(tt);
            let mut fa = vec![p[s]];
            fa.extend_from_slice(&m[l.a_t(tt)..l.a_t(tt) + l.d]);
            out.push(("a_t", p[s + 4], fa));
            let mut fc = vec![p[s + 1]];
            fc.extend_from_slice(&m[l.c_t(tt)..l.c_t(tt) + l.d]);
            out.push(("c_t", p[s + 5], fc));
        }
        out.retain(|(_, m, _)| *m != S::B::ZERO);
        out
    }
}

pub struct Inst<S: Setup, const D: usize> {
    pub air: AluAir<S::B, D>,
    pub tab: Tab<S::B>,
    pub lay: Lay,
}

pub fn build<S: Setup, const D: usize>(spec: &AluSpec) -> Result<Inst<S, D>, String> {
    assert_eq!(S::D, D);
    let n = spec.ops.len();
    let kinds = [AluOpKind::Add, AluOpKind::Mul, AluOpKind::BoolCheck, AluOpKind::MulAdd, AluOpKind::HornerAcc];
    let trace = AluTrace::<S::E> {
        op_kind: spec.ops.iter().map(|o| kinds[o.kind as usize]).collect(),
        values: spec.ops.iter().map(|o| core::array::from_fn(|i| S::el(&o.v[i]))).collect(),
        indices: spec.ops.iter().map(|o| core::array::from_fn(|i| WitnessId(o.idx[i]))).collect(),
    };
    let mut prep: Vec<S::B> = Vec::with_capacity(13 * n);
    for o in &spec.ops {
        let sel = |k: u8| S::B::from_bool(o.kind == k);
        prep.extend([
            -S::B::ONE,
            sel(0),
            sel(2),
            sel(3),
            sel(4),
            S::B::from_u64(o.idx[0] as u64 * D as u64),
            S::B::from_u64(o.idx[1] as u64 * D as u64),
            S::B::from_u64(o.idx[2] as u64 * D as u64),
            S::B::from_u64(o.idx[3] as u64 * D as u64),
            fi::<S>(o.mult_b),
            fi::<S>(o.mult_out),
            fi::<S>(o.a_rd),
            fi::<S>(o.c_rd),
        ]);
    }
    let red = AluExtMulKind::resolve(
        D,
        <S::E as ExtractBinomialW<S::B>>::extract_w(),
        D == 5 && <S::E as ExtractBinomialW<S::B>>::alu_is_quintic_trinomial(),
    )
    .ok_or("no reduction for this field")?;
    let air = AluAir::<S::B, D>::from_reduction_with_preprocessed(n, spec.lanes, red, prep, spec.k_max);
    let main = air.trace_to_matrix(&trace, 1);
    let prepm = TableAir::<S::B>::prep_matrix(&air);
    let lay = Lay { d: D, lanes: spec.lanes, k_max: spec.k_max, num_int: (spec.k_max - 1) / 2 };
    if main.width != lay.main_w() || prepm.width != lay.prep_w() {
        return Err(format!(
            "documented layout does not match: main {} vs {}, prep {} vs {}",
            main.width,
            lay.main_w(),
            prepm.width,
            lay.prep_w()
        ));
    }
    if main.height() != prepm.height() {
        return Err(format!("main height {} != preprocessed height {}", main.height(), prepm.height()));
    }
    Ok(Inst { air, tab: Tab { main, prep: prepm }, lay })
}

struct Group {
    name: String,
    class: String,
    kind: &'static str,
    off: usize,
}

fn groups<S: Setup>(or: &AluOracle<S>, t: &Tab<S::B>, r: usize) -> Vec<Group> {
    let l = &or.lay;
    let p = t.prow(r);
    let mut g = vec![];
    let names = ["a", "b", "c", "out"];
    for lane in 0..l.lanes {
        let kind = or.lane_kind(p, lane);
        for o in 0..4 {
            g.push(Group {
                name: format!("L{lane}.{}", names[o]),
                class: format!("{}.{}", names[o], or.role(p, lane, o)),
                kind,
                off: l.op(lane, o),
            });
        }
    }
    let k0 = or.lane_kind(p, 0);
    for j in 0..l.num_int {
        g.push(Group { name: format!("int{j}"), class: format!("int{j}"), kind: k0, off: l.int(j) });
    }
    for tt in 1..l.k_max {
        g.push(Group { name: format!("a{tt}"), class: format!("a{tt}"), kind: k0, off: l.a_t(tt) });
        g.push(Group { name: format!("c{tt}"), class: format!("c{tt}"), kind: k0, off: l.c_t(tt) });
    }
    g.push(Group { name: "bsq".into(), class: "bsq".into(), kind: k0, off: l.bsq() });
    g
}

fn coeffs_at<S: Setup>(t: &Tab<S::B>, r: usize, off: usize) -> S::E {
    ext::<S>(t.mrow(r), off)
}

fn set_ext<S: Setup>(cells: &mut Vec<(usize, usize, S::B)>, r: usize, off: usize, e: S::E) {
    for (i, c) in <S::E as BasedVectorSpace<S::B>>::as_basis_coefficients_slice(&e).iter().enumerate() {
        cells.push((r, off + i, *c));
    }
}

/// Multi-cell changes that keep the touched lane's own relation true (a different valid row).
fn variants<S: Setup>(
    or: &AluOracle<S>,
    t: &Tab<S::B>,
    r: usize,
    rng: &mut SmallRng,
) -> Vec<(&'static str, String, Vec<(usize, usize, S::B)>)> {
    let l = &or.lay;
    let p = t.prow(r);
    let mut out = vec![];
    for lane in 0..l.lanes {
        let kind = or.lane_kind(p, lane);
        let v: [S::E; 4] = core::array::from_fn(|o| coeffs_at::<S>(t, r, l.op(lane, o)));
        let delta = rand_e::<S>(rng) + S::E::ONE;
        let mut cells = vec![];
        match kind {
            "add" => {
                set_ext::<S>(&mut cells, r, l.op(lane, 0), v[0] + delta);
                set_ext::<S>(&mut cells, r, l.op(lane, 3), v[3] + delta);
            }
            "mul" => {
                let nb = rand_e::<S>(rng);
                set_ext::<S>(&mut cells, r, l.op(lane, 1), nb);
                set_ext::<S>(&mut cells, r, l.op(lane, 3), v[0] * nb);
            }
            "mul-add" => {
                set_ext::<S>(&mut cells, r, l.op(lane, 2), v[2] + delta);
                set_ext::<S>(&mut cells, r, l.op(lane, 3), v[3] + delta);
                // second variant: another a, with c solved from the row equation
                let na = v[0] + delta;
                let mut c2 = vec![];
                set_ext::<S>(&mut c2, r, l.op(lane, 0), na);
                set_ext::<S>(&mut c2, r, l.op(lane, 2), v[3] - na * v[1]);
                out.push((kind, format!("L{lane}.variant(a,c)"), c2));
            }
            "bool" => {
                let f = S::E::ONE - v[0];
                for o in [0, 2, 3] {
                    set_ext::<S>(&mut cells, r, l.op(lane, o), f);
                }
            }
            "horner1" => {
                set_ext::<S>(&mut cells, r, l.op(lane, 2), v[2] + delta);
                set_ext::<S>(&mut cells, r, l.op(lane, 3), v[3] + delta);
            }
            k if k.starts_with("horner-k") => {
                let kk = or.packed_k(p).unwrap();
                let off = l.c_t(kk - 1);
                let c_last = coeffs_at::<S>(t, r, off);
                set_ext::<S>(&mut cells, r, off, c_last + delta);
                set_ext::<S>(&mut cells, r, l.op(lane, 3), v[3] + delta);
            }
            _ => {}
        }
        if !cells.is_empty() {
            out.push((kind, format!("L{lane}.variant"), cells));
        }
    }
    out
}

fn u64s<F: PrimeField64>(cells: &[(usize, usize, F)]) -> Vec<(usize, usize, u64)> {
    cells.iter().map(|(r, c, v)| (*r, *c, v.as_canonical_u64())).collect()
}

/// Run one ALU case: honest check, then every cell of the selected rows.
pub fn run<S: Setup, const D: usize>(
    spec: &AluSpec,
    rng: &mut SmallRng,
    max_rows: usize,
    only: Option<&Value>,
    sample: bool,
) -> Vec<CaseResult> {
    let dlabel = crate::acc::d_label(S::NAME).to_string();
    let shape = format!("{}:lanes={},k={}", S::NAME, spec.lanes, spec.k_max);
    let mut acc = Acc::new("alu", dlabel.clone(), shape.clone());
    let case_key = format!("alu:{}:{shape}:{}", S::NAME, fnv(&serde_json::to_string(spec).unwrap()));
    let inst = match guarded(|| build::<S, D>(spec)) {
        Ok(Ok(i)) => i,
        Ok(Err(e)) => return vec![CaseResult::inconclusive(case_key, format!("alu build: {e}"))],
        Err(p) => {
            // an honest AluTrace made the repo's trace generation panic
            return vec![CaseResult::violated(
                case_key,
                format!("tracegen-panic/alu/{}", crate::acc::site(&p)),
                json!({"family": "alu", "spec": spec, "panic": p}),
            )];
        }
    };
    let Inst { air, mut tab, lay } = inst;
    let or = AluOracle::<S> { lay, _p: Default::default() };
    let airdyn: &dyn TableAir<S::B> = &air;
    let h = tab.h();
    let detail = |tab: &Tab<S::B>, rows: &[usize], extra: Value| -> Value {
        json!({"family": "alu", "spec": spec, "height": h, "rows": dump_rows(tab, rows), "extra": extra})
    };

    // ---- honest trace: every window must satisfy the AIR, the oracle and the bus expectation
    let mut bus_bad: std::collections::BTreeSet<usize> = Default::default();
    {
        let quiet = only.is_some();
        let mut my_ok = true;
        let mut fatal = false;
        for r in 0..h {
            let o = eval_window(airdyn, &tab, r, true);
            acc.evals += 1;
            let rel = match guarded(|| or.holds(&tab, r)) {
                Ok(x) => x,
                Err(e) => return vec![CaseResult::inconclusive(case_key, format!("oracle: {e}"))],
            };
            // label of the window: the most complex operation it contains (row r's lanes and the
            // Horner step of row r+1 that starts from row r's out)
            let rank = |k: &str| match k {
                k if k.starts_with("horner-k") => 6,
                "horner1" => 5,
                "mul-add" => 4,
                "mul" => 3,
                "bool" => 2,
                "add" => 1,
                _ => 0,
            };
            let mut kind = or.lane_kind(tab.prow(r), 0);
            *acc.honest_rows.entry(kind.to_string()).or_default() += 1;
            for lane in 0..lay.lanes {
                let k = or.lane_kind(tab.prow(r), lane);
                if rank(k) > rank(kind) {
                    kind = k;
                }
            }
            let kn = or.lane_kind(tab.prow((r + 1) % h), 0);
            if kn.starts_with("horner") && rank(kn) > rank(kind) {
                kind = kn;
            }
            my_ok &= o.ok;
            let rows = [(r + h - 1) % h, r, (r + 1) % h];
            if quiet {
                let (missing, extra) = bus_diff(o.msgs, or.msgs(&tab, r));
                if extra.is_empty() && !missing.is_empty() {
                    bus_bad.insert(r);
                }
                continue;
            }
            if !rel {
                fatal = true;
                acc.violation(
                    format!("{case_key}:honest{r}"),
                    format!("tracegen-invalid-row/{kind}/{dlabel}"),
                    || detail(&tab, &rows, json!({"what": "honest trace violates the relation", "row": r, "air_ok": o.ok})),
                );
            } else if !o.ok {
                fatal = true;
                acc.violation(
                    format!("{case_key}:honest{r}"),
                    format!("rejects-valid-row/{kind}/{dlabel}"),
                    || detail(&tab, &rows, json!({"what": "honest row rejected", "row": r, "constraint": o.first_fail})),
                );
            }
            let (missing, extra) = bus_diff(o.msgs, or.msgs(&tab, r));
            if !extra.is_empty() {
                fatal = true;
                acc.violation(
                    format!("{case_key}:honest-bus{r}"),
                    format!("rejects-valid-row/{kind}/{dlabel}@bus"),
                    || detail(&tab, &[r], json!({"what": "honest row sends unexpected tuples", "unexpected": extra, "missing": missing})),
                );
            } else if !missing.is_empty() {
                bus_bad.insert(r);
                acc.violation(
                    format!("{case_key}:honest-bus{r}"),
                    format!("accepts-invalid-row/{kind}/{dlabel}/{}@bus", missing[0]),
                    || detail(&tab, &[r], json!({"what": "a claim of the honest row never reaches the witness bus", "missing": missing})),
                );
            }
        }
        // cross-check the harness builder against the repo's checker
        match guarded(|| airdyn.repo_check(&tab.main)) {
            _ if quiet => {}
            Ok(res) => {
                if res.is_ok() != my_ok {
                    return vec![CaseResult::inconclusive(
                        case_key,
                        format!("harness builder and check_air_satisfies disagree ({:?} vs {my_ok})", res.err()),
                    )];
                }
            }
            Err(e) => return vec![CaseResult::inconclusive(case_key, format!("check_air_satisfies panicked: {e}"))],
        }
        if fatal {
            return acc.finish(&case_key);
        }
    }

    // ---- replay of one recorded perturbation
    if let Some(p) = only {
        let cells: Vec<(usize, usize, S::B)> = p["cells"]
            .as_array()
            .unwrap()
            .iter()
            .map(|c| {
                (
                    c[0].as_u64().unwrap() as usize,
                    c[1].as_u64().unwrap() as usize,
                    S::B::from_u64(c[2].as_u64().unwrap()),
                )
            })
            .collect();
        let pr = probe(airdyn, &or, &mut tab, &cells, &bus_bad);
        let (kind, class, column) = (
            p["kind"].as_str().unwrap_or("?").to_string(),
            p["class"].as_str().unwrap_or("?").to_string(),
            p["column"].as_str().unwrap_or("?").to_string(),
        );
        let rows = pr.windows.clone();
        acc.judge(&kind, &class, &column, &pr, || {
            detail(&tab, &rows, json!({"pert": p, "probe": format!("{pr:?}")}))
        });
        return acc.finish(&case_key);
    }

    // ---- choose target rows: one per lane-0 kind first, then the rest
    let mut by_kind: std::collections::BTreeMap<&'static str, Vec<usize>> = Default::default();
    for r in 0..h {
        by_kind.entry(or.lane_kind(tab.prow(r), 0)).or_default().push(r);
    }
    let mut targets: Vec<usize> = vec![];
    let mut round = 0;
    while targets.len() < max_rows.min(h) {
        let mut any = false;
        for rows in by_kind.values() {
            if let Some(r) = rows.get(round) {
                if targets.len() < max_rows {
                    targets.push(*r);
                }
                any = true;
            }
        }
        if !any {
            break;
        }
        round += 1;
    }
    if sample {
        acc.sample = Some(json!({"family": "alu", "setup": S::NAME, "lanes": spec.lanes, "k_max": spec.k_max,
            "ops": spec.ops.iter().map(|o| o.kind).collect::<Vec<_>>(), "height": h,
            "row_kinds": (0..h).map(|r| (0..lay.lanes).map(|l| or.lane_kind(tab.prow(r), l)).collect::<Vec<_>>()).collect::<Vec<_>>(),
            "target_rows": targets}));
    }
    let w_shift: S::B = <S::E as ExtractBinomialW<S::B>>::extract_w().unwrap_or(S::B::ONE);

    for &r in &targets {
        let gs = groups::<S>(&or, &tab, r);
        for g in &gs {
            let mut perts: Vec<(String, String, Vec<(usize, usize, S::B)>)> = vec![];
            for limb in 0..D {
                let col = g.off + limb;
                let old = tab.get(r, col);
                let mut rv = rand_b::<S>(rng);
                if rv == old {
                    rv += S::B::ONE;
                }
                perts.push(("+1".into(), format!("{}[{limb}]", g.name), vec![(r, col, old + S::B::ONE)]));
                perts.push(("rand".into(), format!("{}[{limb}]", g.name), vec![(r, col, rv)]));
            }
            if D > 1 {
                // move mass between coefficients the way a wrong reduction would tolerate
                let mut dl = rand_b::<S>(rng);
                if dl == S::B::ZERO {
                    dl = S::B::ONE;
                }
                let (c0, cl) = (g.off, g.off + D - 1);
                perts.push((
                    "shift(W·δ→0, −δ→D−1)".into(),
                    format!("{}.shift", g.name),
                    vec![(r, c0, tab.get(r, c0) + w_shift * dl), (r, cl, tab.get(r, cl) - dl)],
                ));
                let i = rng.random_range(0..D);
                let mut j = rng.random_range(0..D);
                if j == i {
                    j = (i + 1) % D;
                }
                perts.push((
                    "shift(δ→i, −δ→j)".into(),
                    format!("{}.shift", g.name),
                    vec![(r, g.off + i, tab.get(r, g.off + i) + dl), (r, g.off + j, tab.get(r, g.off + j) - dl)],
                ));
                if D == 5 {
                    // X^5 = 1 − X^2: the quintic reduction couples coefficients 0 and 2
                    perts.push((
                        "shift(δ→0, δ→2)".into(),
                        format!("{}.shift", g.name),
                        vec![(r, g.off, tab.get(r, g.off) + dl), (r, g.off + 2, tab.get(r, g.off + 2) + dl)],
                    ));
                }
            }
            for (label, column, cells) in perts {
                let pr = match guarded(|| probe(airdyn, &or, &mut tab, &cells, &bus_bad)) {
                    Ok(p) => p,
                    Err(e) => return vec![CaseResult::inconclusive(case_key, format!("probe: {e}"))],
                };
                let rows = pr.windows.clone();
                acc.judge(g.kind, &g.class, &column, &pr, || {
                    detail(
                        &tab,
                        &rows,
                        json!({"pert": pert_json(&u64s(&cells), &label, g.kind, &g.class, &column),
                               "air_ok": pr.air_ok, "relation_ok": pr.rel_ok, "bus_ok": pr.msg_ok,
                               "air_first_failure": pr.air_fail_window, "bus": pr.msg_detail}),
                    )
                });
            }
        }
        for (kind, column, cells) in variants::<S>(&or, &tab, r, rng) {
            let pr = match guarded(|| probe(airdyn, &or, &mut tab, &cells, &bus_bad)) {
                Ok(p) => p,
                Err(e) => return vec![CaseResult::inconclusive(case_key, format!("probe: {e}"))],
            };
            let rows = pr.windows.clone();
            let vclass = column.split_once('.').map(|x| x.1.to_string()).unwrap_or_else(|| "variant".into());
            acc.judge(kind, &vclass, &column, &pr, || {
                detail(
                    &tab,
                    &rows,
                    json!({"pert": pert_json(&u64s(&cells), "relation-preserving variant", kind, &vclass, &column),
                           "air_ok": pr.air_ok, "relation_ok": pr.rel_ok, "bus_ok": pr.msg_ok,
                           "air_first_failure": pr.air_fail_window, "bus": pr.msg_detail}),
                )
            });
        }
    }
    acc.finish(&case_key)
}
