//! Per-case accumulation of probe outcomes into `CaseResult`s.

use std::collections::{BTreeMap, BTreeSet};
use std::sync::Mutex;

use p3r_verif::util::CaseResult;
use serde_json::{Value, json};

use crate::rec::Probe;

/// Observation sets filled by the (parallel) cases and copied into the report at the end.
pub static OBSERVED: Mutex<BTreeSet<(String, String)>> = Mutex::new(BTreeSet::new());
/// Distinct keys already reported in this run: a key is emitted as its own `CaseResult` only the
/// first time (the report hashes keys anyway), later cases only contribute counters. Keeps the
/// thorough tier's memory bounded.
pub static SEEN_KEYS: Mutex<BTreeSet<u64>> = Mutex::new(BTreeSet::new());
/// Number of fully detailed witnesses already emitted per signature in this run.
pub static SIG_WITNESSES: Mutex<BTreeMap<String, u64>> = Mutex::new(BTreeMap::new());

/// Reduction label used in the `<D>` position of signatures.
pub fn d_label(setup: &str) -> &'static str {
    match setup {
        "babybear-d1" | "koalabear-d1" | "goldilocks-d1" => "D1",
        "goldilocks-d2" => "D2",
        "babybear-d4" | "koalabear-d4" => "D4",
        "koalabear-d8" => "D8",
        "koalabear-d5-quintic" => "D5q",
        _ => "D?",
    }
}

#[derive(Default, Clone)]
pub struct Stat {
    pub probes: u64,
    pub must_reject: u64,
    pub still_valid: u64,
}

pub struct Acc {
    pub family: &'static str,
    /// Reduction / configuration label used in signatures (`<D>` position).
    pub d: String,
    /// Shape part of the distinct key (lanes, k).
    pub shape: String,
    pub stats: BTreeMap<(String, String), Stat>,
    pub columns: BTreeSet<String>,
    pub evals: u64,
    pub honest_rows: BTreeMap<String, u64>,
    pub results: Vec<CaseResult>,
    sigs: BTreeSet<String>,
    pub sample: Option<Value>,
}

#[derive(Clone, Copy, PartialEq, Eq, Debug)]
pub enum Judged {
    Agree,
    AcceptsInvalid,
    RejectsValid,
    BusMismatch,
}

impl Acc {
    pub fn new(family: &'static str, d: String, shape: String) -> Self {
        Self {
            family,
            d,
            shape,
            stats: BTreeMap::new(),
            columns: BTreeSet::new(),
            evals: 0,
            honest_rows: BTreeMap::new(),
            results: vec![],
            sigs: BTreeSet::new(),
            sample: None,
        }
    }

    pub fn violation(&mut self, key: String, sig: String, detail: impl FnOnce() -> Value) {
        // one witness per signature and case, and at most a few full witnesses per signature and
        // run (an open finding would otherwise fill the thorough tier's memory with details);
        // the rest is counted
        let fresh_in_case = self.sigs.insert(sig.clone());
        let with_detail = fresh_in_case && {
            let mut g = SIG_WITNESSES.lock().unwrap();
            let n = g.entry(sig.clone()).or_insert(0);
            *n += 1;
            *n <= 3
        };
        if with_detail {
            self.results.push(CaseResult::violated(key, sig, detail()));
        } else {
            self.results.push(CaseResult::held(key, false).count(format!("repeat-violation/{sig}"), 1));
        }
    }

    /// Compare the real AIR's verdict with the oracle's for one perturbation.
    pub fn judge(
        &mut self,
        kind: &str,
        class: &str,
        column: &str,
        p: &Probe,
        detail: impl FnOnce() -> Value,
    ) -> Judged {
        self.evals += p.evals;
        let st = self.stats.entry((kind.to_string(), class.to_string())).or_default();
        st.probes += 1;
        if p.rel_ok {
            st.still_valid += 1;
        } else {
            st.must_reject += 1;
        }
        self.columns.insert(format!("{kind}/{}/{column}", self.d));
        let key = format!("{}:{kind}:{}:{}:{column}", self.family, self.d, self.shape);
        if p.air_ok && !p.rel_ok {
            let sig = format!("accepts-invalid-row/{kind}/{}/{class}", self.d);
            self.violation(key, sig, detail);
            Judged::AcceptsInvalid
        } else if !p.air_ok && p.rel_ok {
            let sig = format!("rejects-valid-row/{kind}/{}", self.d);
            self.violation(key, sig, detail);
            Judged::RejectsValid
        } else if p.air_ok && !p.msg_ok {
            // the row is accepted but what it tells the bus is not what its cells say
            let sig = format!("accepts-invalid-row/{kind}/{}/{class}@bus", self.d);
            self.violation(key, sig, detail);
            Judged::BusMismatch
        } else {
            Judged::Agree
        }
    }

    pub fn finish(mut self, case_label: &str) -> Vec<CaseResult> {
        {
            let mut o = OBSERVED.lock().unwrap();
            for c in &self.columns {
                o.insert((format!("columns/{}", self.family), c.clone()));
            }
            for ((kind, _), _) in &self.stats {
                o.insert(("kinds".into(), format!("{kind}/{}/{}", self.d, self.shape)));
            }
        }
        let stats = std::mem::take(&mut self.stats);
        let mut summary = CaseResult::held(format!("{case_label}:summary"), false)
            .count(format!("row-evaluations/{}/{}", self.family, self.d), self.evals)
            .count(format!("cases/{}", self.family), 1);
        for (k, n) in &self.honest_rows {
            summary = summary.count(format!("honest-rows/{k}/{}", self.d), *n);
        }
        let (mut mr, mut sv) = (0, 0);
        let mut per_kind: BTreeMap<String, u64> = BTreeMap::new();
        for ((kind, class), st) in stats {
            mr += st.must_reject;
            sv += st.still_valid;
            *per_kind.entry(kind.clone()).or_default() += st.probes;
            let key = format!("{}:{kind}:{}:{}:{class}", self.family, self.d, self.shape);
            if st.probes > 0 && SEEN_KEYS.lock().unwrap().insert(p3r_verif::util::fnv(&key)) {
                self.results.push(CaseResult::held(key, true));
            }
        }
        for (kind, n) in per_kind {
            summary = summary.count(format!("probes/{}/{kind}/{}", self.family, self.d), n);
        }
        summary = summary
            .count("perturbations/must-reject", mr)
            .count("perturbations/relation-preserved", sv);
        if let Some(s) = self.sample.take() {
            summary = summary.with_sample(s);
        }
        self.results.push(summary);
        self.results
    }
}

pub fn pert_json(cells: &[(usize, usize, u64)], label: &str, kind: &str, class: &str, column: &str) -> Value {
    json!({"cells": cells, "label": label, "kind": kind, "class": class, "column": column})
}

/// Panic location with the checkout prefix removed (`circuit-prover/src/air/alu_air.rs:554`).
pub fn site(msg: &str) -> String {
    let s = p3r_verif::util::panic_site(msg);
    match s.find("/repo/") {
        Some(i) => s[i + 6..].to_string(),
        None => s,
    }
}
