//! C11 — each table's constraints accept exactly the rows its operation allows.
//!
//! Fault-enumeration monitor. For every table family of /repo the real `Air::eval` is run on
//! explicit (main, preprocessed) matrices produced by the repo's own trace generators from honest
//! traces; then every modelled cell of selected rows is perturbed (one cell at a time, plus
//! coefficient-mass shifts and relation-preserving multi-cell variants) and the AIR's verdict on
//! the windows that see the row is compared with an independent oracle that evaluates the
//! operation's defining relation with native `p3_field` arithmetic / the native permutation.
//!
//!   AIR accepts ∧ relation false  → `accepts-invalid-row/<kind>/<D>/<column class>`
//!   AIR rejects ∧ relation true   → `rejects-valid-row/<kind>/<D>`
//!   AIR accepts, but the tuples the row puts on the witness bus are not the ones its cells
//!   denote                          → `accepts-invalid-row/<kind>/<D>/<column class>@bus`

mod acc;
mod alu;
mod pos;
mod rec;
mod send;

use p3r_verif::fields::*;
use p3r_verif::util::*;
use serde_json::Value;

#[derive(Clone, Copy, Debug)]
enum Combo {
    Alu(&'static str),
    Send(&'static str, &'static str),
    Recompose(&'static str, bool),
    Pos(&'static str),
}

const SETUPS: [&str; 8] = [
    "babybear-d1",
    "babybear-d4",
    "koalabear-d1",
    "koalabear-d4",
    "koalabear-d8",
    "koalabear-d5-quintic",
    "goldilocks-d1",
    "goldilocks-d2",
];

fn combos() -> Vec<Combo> {
    let mut v = vec![];
    for s in SETUPS {
        // the ALU carries the hand-expanded arithmetic: most of the budget
        for _ in 0..4 {
            v.push(Combo::Alu(s));
        }
    }
    for (i, s) in SETUPS.iter().enumerate() {
        v.push(Combo::Send(if i % 2 == 0 { "const" } else { "public" }, s));
        v.push(Combo::Send(if i % 2 == 0 { "public" } else { "const" }, s));
    }
    for s in ["babybear-d4", "koalabear-d4", "koalabear-d8", "koalabear-d5-quintic", "goldilocks-d2"] {
        v.push(Combo::Recompose(s, false));
        v.push(Combo::Recompose(s, true));
    }
    for c in pos::CONFIGS {
        v.push(Combo::Pos(c));
        v.push(Combo::Pos(c));
    }
    v
}

macro_rules! with_setup {
    ($name:expr, $f:ident, $($args:expr),*) => {
        match $name {
            "babybear-d1" => $f::<BbD1, 1>($($args),*),
            "babybear-d4" => $f::<BbD4, 4>($($args),*),
            "koalabear-d1" => $f::<KbD1, 1>($($args),*),
            "koalabear-d4" => $f::<KbD4, 4>($($args),*),
            "koalabear-d8" => $f::<KbD8, 8>($($args),*),
            "koalabear-d5-quintic" => $f::<KbD5, 5>($($args),*),
            "goldilocks-d1" => $f::<GlD1, 1>($($args),*),
            "goldilocks-d2" => $f::<GlD2, 2>($($args),*),
            other => panic!("unknown setup {other}"),
        }
    };
}

fn alu_case<S: Setup, const D: usize>(seed: u64, idx: usize, tier: Tier) -> Vec<CaseResult> {
    let mut rng = case_rng(seed, "c11-alu", idx as u64);
    let spec = alu::gen_spec::<S>(&mut rng, tier);
    let max_rows = tier.pick(3usize, 12usize);
    alu::run::<S, D>(&spec, &mut rng, max_rows, None, idx < 64)
}

fn alu_replay<S: Setup, const D: usize>(spec: &Value, pert: Option<&Value>) -> Vec<CaseResult> {
    let spec: alu::AluSpec = serde_json::from_value(spec.clone()).expect("alu spec");
    let mut rng = case_rng(0, "c11-replay", 0);
    // without a recorded perturbation the violation was found on the honest trace: replay that stage only
    alu::run::<S, D>(&spec, &mut rng, if pert.is_some() { usize::MAX } else { 0 }, pert, false)
}

fn send_case<S: Setup, const D: usize>(table: &str, seed: u64, idx: usize, tier: Tier) -> Vec<CaseResult> {
    let mut rng = case_rng(seed, "c11-send", idx as u64);
    let spec = send::gen_send::<S>(table, &mut rng, tier);
    send::run_send::<S, D>(&spec, &mut rng, None, idx < 64)
}

fn send_replay<S: Setup, const D: usize>(spec: &Value, pert: Option<&Value>) -> Vec<CaseResult> {
    let spec: send::SendSpec = serde_json::from_value(spec.clone()).expect("send spec");
    let mut rng = case_rng(0, "c11-replay", 0);
    send::run_send::<S, D>(&spec, &mut rng, pert, false)
}

fn rec_case<S: Setup, const D: usize>(coeff: bool, seed: u64, idx: usize, tier: Tier) -> Vec<CaseResult> {
    let mut rng = case_rng(seed, "c11-recompose", idx as u64);
    let spec = send::gen_recompose::<S>(coeff, &mut rng, tier);
    send::run_recompose::<S, D>(&spec, &mut rng, None, idx < 64)
}

fn rec_replay<S: Setup, const D: usize>(spec: &Value, pert: Option<&Value>) -> Vec<CaseResult> {
    let spec: send::RecSpec = serde_json::from_value(spec.clone()).expect("recompose spec");
    let mut rng = case_rng(0, "c11-replay", 0);
    send::run_recompose::<S, D>(&spec, &mut rng, pert, false)
}

fn one_case(combo: Combo, seed: u64, idx: usize, tier: Tier) -> Vec<CaseResult> {
    match combo {
        Combo::Alu(s) => with_setup!(s, alu_case, seed, idx, tier),
        Combo::Send(t, s) => with_setup!(s, send_case, t, seed, idx, tier),
        Combo::Recompose(s, c) => with_setup!(s, rec_case, c, seed, idx, tier),
        Combo::Pos(c) => pos::case(c, seed, idx, tier),
    }
}

fn replay(path: &std::path::Path) -> Vec<CaseResult> {
    let v: Value = serde_json::from_str(&std::fs::read_to_string(path).expect("replay file")).unwrap();
    let d = &v["detail"];
    let pert = d["extra"].get("pert").filter(|p| !p.is_null());
    match d["family"].as_str().unwrap_or("") {
        "alu" => {
            let s = d["spec"]["setup"].as_str().unwrap().to_string();
            with_setup!(s.as_str(), alu_replay, &d["spec"], pert)
        }
        "send" => {
            let s = d["spec"]["setup"].as_str().unwrap().to_string();
            with_setup!(s.as_str(), send_replay, &d["spec"], pert)
        }
        "recompose" => {
            let s = d["spec"]["setup"].as_str().unwrap().to_string();
            with_setup!(s.as_str(), rec_replay, &d["spec"], pert)
        }
        "poseidon" => pos::replay(&d["spec"], pert),
        other => vec![CaseResult::inconclusive("replay", format!("unknown family {other:?}"))],
    }
}

fn main() {
    let args = parse_args();
    let mut rep = Report::new(
        "C11",
        "fault_enumeration",
        &args,
        "case = one honest table instance (family, reduction/config, lanes, Horner pack k) laid out by the \
         repo's trace generators; every modelled main cell of the selected rows is perturbed (+1, random, \
         coefficient-mass shifts, relation-preserving variants; Poseidon inputs also with the permutation \
         columns recomputed) and the real Air::eval verdict on the windows seeing the row is compared with the \
         native-arithmetic relation oracle and the expected bus tuples; non-trivial = the oracle decided the \
         perturbation (relation broken -> must be rejected, relation preserved -> must be accepted); distinct \
         by (kind, D/config, lanes, k, column class)",
    );
    rep.assume("native p3-field extension arithmetic (BinomialExtensionField, QuinticTrinomialExtensionField) is correct");
    rep.assume("native Poseidon1/Poseidon2 permutations of p3-baby-bear / p3-koala-bear / p3-goldilocks are the reference permutations");
    rep.assume("preprocessed columns are fixed by the verifier and are not perturbed; their documented layout is trusted to decode a row's operation kind");
    rep.assume("Poseidon round-internal columns are not modelled: perturbations are restricted to input state, output state, direction bits and index accumulator");
    rep.assume("Const/Public/Recompose have no constraints: a row is 'accepted' as the statement the tuple it sends to the bus makes; that constant values themselves live in the prover-committed main trace is C04's finding, not re-reported here");
    if let Some(p) = &args.replay {
        let rs = replay(p);
        rep.add_all(rs);
        rep.finish(0);
    }
    let cs = combos();
    let (seed, tier) = (args.seed, args.tier);
    if let Some(one) = args.extra.get("only") {
        let i: usize = one.parse().unwrap();
        let rs = one_case(cs[i % cs.len()], seed, i, tier);
        println!("case {i} {:?}: {} results", cs[i % cs.len()], rs.len());
        rep.add_all(rs);
        rep.finish(0);
    }
    let n: usize = args
        .extra
        .get("n")
        .and_then(|s| s.parse().ok())
        .unwrap_or_else(|| tier.pick(cs.len() * 400, cs.len() * 1_500));
    let filter = args.extra.get("family").cloned();
    // chunked so that the thorough tier never holds millions of case results at once
    let chunk = 20_000usize;
    let mut from = 0usize;
    while from < n {
        let len = chunk.min(n - from);
        let results = run_cases(len, args.threads, |j| {
            let i = from + j;
            let c = cs[i % cs.len()];
            if let Some(f) = &filter {
                let name = format!("{c:?}").to_lowercase();
                if !name.contains(&f.to_lowercase()) {
                    return vec![];
                }
            }
            one_case(c, seed, i, tier)
        });
        rep.add_all(results);
        from += len;
    }
    {
        let o = acc::OBSERVED.lock().unwrap();
        for (set, item) in o.iter() {
            rep.observe(set, item.clone());
        }
    }
    rep.finish(tier.pick(3_000, 10_000));
}
