// PCS flavour: HidingFriPcs (ZK) over hiding (per-leaf salted) Merkle-tree MMCSs.

pub const SALT_ELEMS: usize = 4;
pub type MyMmcs = p3_merkle_tree::MerkleTreeHidingMmcs<
    <F as Field>::Packing,
    <F as Field>::Packing,
    MyHash,
    MyCompress,
    rand::rngs::SmallRng,
    2,
    DIGEST_ELEMS,
    SALT_ELEMS,
>;
pub type ChallengeMmcs = p3_commit::ExtensionMmcs<F, Challenge, MyMmcs>;
pub type PcsT = p3_fri::HidingFriPcs<F, Dft, MyMmcs, ChallengeMmcs, rand::rngs::SmallRng>;
pub type SC = p3_uni_stark::StarkConfig<PcsT, Challenge, Challenger>;
pub type RecInMmcs = p3_recursion::pcs::RecValHidingMmcs<
    F,
    DIGEST_ELEMS,
    SALT_ELEMS,
    MyHash,
    MyCompress,
    rand::rngs::SmallRng,
>;
pub type RecExtMmcs = p3_recursion::pcs::RecExtensionValMmcs<F, Challenge, DIGEST_ELEMS, RecInMmcs>;
pub type InputProofT = p3_recursion::pcs::InputProofTargets<F, Challenge, RecInMmcs>;
pub type FriT =
    p3_recursion::pcs::FriProofTargets<F, Challenge, RecExtMmcs, InputProofT, p3_recursion::pcs::Witness<F>>;
pub type InnerFri = p3_recursion::pcs::HidingFriProofTargets<
    F,
    Challenge,
    RecExtMmcs,
    InputProofT,
    p3_recursion::pcs::Witness<F>,
>;

pub fn make_config(fri: &crate::kit::FriSc) -> SC {
    use rand::SeedableRng;
    let perm = default_perm();
    let hash = MyHash::new(perm.clone());
    let compress = MyCompress::new(perm.clone());
    let val_mmcs = MyMmcs::new(hash, compress, CAP_HEIGHT, rand::rngs::SmallRng::seed_from_u64(11));
    let challenge_mmcs = ChallengeMmcs::new(val_mmcs.clone());
    let fri_params = p3_fri::FriParameters {
        log_blowup: fri.log_blowup,
        log_final_poly_len: fri.log_final_poly_len,
        max_log_arity: MAX_LOG_ARITY,
        num_queries: crate::kit::FRI_NUM_QUERIES,
        commit_proof_of_work_bits: fri.commit_pow_bits,
        query_proof_of_work_bits: fri.query_pow_bits,
        mmcs: challenge_mmcs,
    };
    let pcs = PcsT::new(Dft::default(), val_mmcs, fri_params, 2, rand::rngs::SmallRng::seed_from_u64(1));
    SC::new(pcs, Challenger::new(perm))
}

pub fn set_mmcs(
    runner: &mut p3_circuit::CircuitRunner<'_, Challenge>,
    op_ids: &[p3_circuit::NonPrimitiveOpId],
    proof: &PcsProofT,
) -> Result<(), String> {
    p3_recursion::pcs::set_hiding_salted_fri_mmcs_private_data::<F, Challenge, ChallengeMmcs, MyMmcs, DIGEST_ELEMS>(
        runner,
        op_ids,
        proof,
        perm_cfg(),
    )
    .map_err(|e| e.to_string())
}

pub fn fri_view(
    t: &InnerFri,
) -> (&FriT, Option<&p3_recursion::pcs::HidingOpenedValuesTargets<Challenge>>) {
    (&t.inner_proof, Some(&t.random_opened_values))
}

// The unified recursion API is exercised over the plain flavour only.
pub fn next_layer_uni(_air: crate::kit::airs::TAir, _b: &serde_json::Value) -> Result<Vec<(String, crate::kit::CircV)>, String> {
    Ok(vec![])
}
pub fn next_layer_circ(_b: &serde_json::Value, _lookups: &[p3_lookup::Lookups<F>]) -> Result<Vec<(String, crate::kit::CircV)>, String> {
    Ok(vec![])
}
pub fn fri_arg_mutants(_air: crate::kit::airs::TAir, _b: &serde_json::Value) -> Result<Vec<(String, crate::kit::CircV)>, String> {
    Ok(vec![])
}

pub fn next_layer_circ_foreign_key(_b: &serde_json::Value, _lookups: &[p3_lookup::Lookups<F>]) -> Result<Vec<(String, crate::kit::CircV)>, String> {
    Ok(vec![])
}
