// PCS flavour: TwoAdicFriPcs over plain Merkle-tree MMCSs (non-ZK). `include!`d into a
// configuration module that already defines F, Challenge, Dft, MyHash, MyCompress, MyMmcs,
// ChallengeMmcs, Challenger, DIGEST_ELEMS, default_perm(), perm_cfg().

pub type PcsT = p3_fri::TwoAdicFriPcs<F, Dft, MyMmcs, ChallengeMmcs>;
pub type SC = p3_uni_stark::StarkConfig<PcsT, Challenge, Challenger>;
pub type RecInMmcs = p3_recursion::pcs::RecValMmcs<F, DIGEST_ELEMS, MyHash, MyCompress>;
pub type RecExtMmcs = p3_recursion::pcs::RecExtensionValMmcs<F, Challenge, DIGEST_ELEMS, RecInMmcs>;
pub type InputProofT = p3_recursion::pcs::InputProofTargets<F, Challenge, RecInMmcs>;
pub type FriT =
    p3_recursion::pcs::FriProofTargets<F, Challenge, RecExtMmcs, InputProofT, p3_recursion::pcs::Witness<F>>;
pub type InnerFri = FriT;

pub fn make_config(fri: &crate::kit::FriSc) -> SC {
    let perm = default_perm();
    let hash = MyHash::new(perm.clone());
    let compress = MyCompress::new(perm.clone());
    let val_mmcs = MyMmcs::new(hash, compress, 0);
    let challenge_mmcs = ChallengeMmcs::new(val_mmcs.clone());
    let fri_params = p3_fri::FriParameters {
        log_blowup: fri.log_blowup,
        log_final_poly_len: fri.log_final_poly_len,
        max_log_arity: crate::kit::FRI_MAX_LOG_ARITY,
        num_queries: crate::kit::FRI_NUM_QUERIES,
        commit_proof_of_work_bits: fri.commit_pow_bits,
        query_proof_of_work_bits: fri.query_pow_bits,
        mmcs: challenge_mmcs,
    };
    let pcs = PcsT::new(Dft::default(), val_mmcs, fri_params);
    SC::new(pcs, Challenger::new(perm))
}

pub fn set_mmcs(
    runner: &mut p3_circuit::CircuitRunner<'_, Challenge>,
    op_ids: &[p3_circuit::NonPrimitiveOpId],
    proof: &PcsProofT,
) -> Result<(), String> {
    p3_recursion::pcs::set_fri_mmcs_private_data::<F, Challenge, ChallengeMmcs, MyMmcs, MyHash, MyCompress, DIGEST_ELEMS>(
        runner,
        op_ids,
        proof,
        perm_cfg(),
    )
    .map_err(|e| e.to_string())
}

pub fn fri_view(
    t: &InnerFri,
) -> (&FriT, Option<&p3_recursion::pcs::HidingOpenedValuesTargets<Challenge>>) {
    (t, None)
}

// ---- unified recursion API (`build_next_layer_circuit`) over this flavour ----

#[derive(Clone)]
pub struct NlCfg {
    config: std::sync::Arc<SC>,
    params: p3_recursion::FriVerifierParams,
}

impl p3_uni_stark::StarkGenericConfig for NlCfg {
    type Pcs = PcsT;
    type Challenge = Challenge;
    type Challenger = Challenger;
    fn pcs(&self) -> &PcsT {
        p3_uni_stark::StarkGenericConfig::pcs(&*self.config)
    }
    fn initialise_challenger(&self) -> Challenger {
        p3_uni_stark::StarkGenericConfig::initialise_challenger(&*self.config)
    }
}

impl p3_recursion::FriRecursionConfig for NlCfg {
    type Commitment = p3_recursion::pcs::MerkleCapTargets<F, DIGEST_ELEMS>;
    type InputProof = InputProofT;
    type OpeningProof = InnerFri;
    type RawOpeningProof = <PcsT as p3_commit::Pcs<Challenge, Challenger>>::Proof;
    const DIGEST_ELEMS: usize = DIGEST_ELEMS;

    fn with_fri_opening_proof<'a, A, R>(
        prev: &p3_recursion::RecursionInput<'a, Self, A>,
        f: impl FnOnce(&Self::RawOpeningProof) -> R,
    ) -> R
    where
        A: p3_recursion::RecursiveAir<F, Challenge, p3_lookup::logup::LogUpGadget>,
    {
        match prev {
            p3_recursion::RecursionInput::UniStark { proof, .. } => f(&proof.opening_proof),
            p3_recursion::RecursionInput::BatchStark { proof, .. } => f(&proof.proof.opening_proof),
        }
    }

    fn prepare_circuit_for_verification(
        &self,
        circuit: &mut p3_circuit::CircuitBuilder<Challenge>,
    ) -> Result<(), p3_recursion::VerificationError> {
        enable_ops(circuit);
        Ok(())
    }

    fn pcs_verifier_params(&self) -> &p3_recursion::FriVerifierParams {
        &self.params
    }

    fn set_fri_private_data(
        runner: &mut p3_circuit::CircuitRunner<'_, Challenge>,
        op_ids: &[p3_circuit::NonPrimitiveOpId],
        opening_proof: &Self::RawOpeningProof,
    ) -> Result<(), &'static str> {
        p3_recursion::pcs::set_fri_mmcs_private_data::<F, Challenge, ChallengeMmcs, MyMmcs, MyHash, MyCompress, DIGEST_ELEMS>(
            runner,
            op_ids,
            opening_proof,
            perm_cfg(),
        )
    }
}

fn nl_finish<A>(
    prev: &p3_recursion::RecursionInput<'_, NlCfg, A>,
    cfg: &NlCfg,
) -> Vec<(String, crate::kit::CircV)>
where
    A: p3_recursion::RecursiveAir<F, Challenge, p3_lookup::logup::LogUpGadget>,
    NlBackend: p3_recursion::PcsRecursionBackend<NlCfg, A, D>,
{
    use crate::kit::{CircV, guard_circ, variant_of};
    use p3_recursion::{PcsRecursionBackend, VerifierCircuitResult};
    const EP: &str = "build_next_layer_circuit";
    let backend = nl_backend();
    let built = guard_circ(EP, || p3_recursion::build_next_layer_circuit::<NlCfg, A, NlBackend, D>(prev, cfg, &backend));
    let (circuit, vr) = match built {
        Ok(Ok(x)) => x,
        Ok(Err(e)) => return vec![(EP.to_string(), build_err(&e))],
        Err(p) => return vec![(EP.to_string(), p)],
    };
    let mut out = vec![(EP.to_string(), CircV::Accept)];
    let run = guard_circ("build_next_layer_circuit+run", || -> CircV {
        let pubs = match vr.pack_public_inputs(prev) {
            Ok(p) => p,
            Err(e) => return CircV::Reject(format!("pack_public_inputs:{}", variant_of(&format!("{e:?}")))),
        };
        let privs = match vr.pack_private_inputs(prev) {
            Ok(p) => p,
            Err(e) => return CircV::Reject(format!("pack_private_inputs:{}", variant_of(&format!("{e:?}")))),
        };
        let mut runner = circuit.runner();
        if let Err(e) = runner.set_public_inputs(&pubs) {
            return CircV::Reject(format!("set_public_inputs:{}", variant_of(&format!("{e:?}"))));
        }
        if let Err(e) = runner.set_private_inputs(&privs) {
            return CircV::Reject(format!("set_private_inputs:{}", variant_of(&format!("{e:?}"))));
        }
        if let Err(e) = backend.set_private_data(cfg, &mut runner, vr.op_ids(), prev) {
            return CircV::Reject(format!("set_private_data:{e}"));
        }
        match runner.run() {
            Ok(_) => CircV::Accept,
            Err(e) => CircV::Reject(variant_of(&format!("{e:?}"))),
        }
    });
    out.push(("build_next_layer_circuit+run".to_string(), run.unwrap_or_else(|p| p)));
    out
}

pub fn next_layer_uni(air: crate::kit::airs::TAir, b: &serde_json::Value) -> Result<Vec<(String, crate::kit::CircV)>, String> {
    let proof: p3_uni_stark::Proof<NlCfg> = de(b, "proof")?;
    let pis: Vec<F> = de(b, "pis")?;
    let prep: Option<ComV> = de(b, "prep")?;
    let fri: crate::kit::FriSc = de(b, "fri")?;
    let cfg = match crate::kit::guard_circ("make_config", || NlCfg {
        config: std::sync::Arc::new(make_config(&fri)),
        params: vparams(&fri),
    }) {
        Ok(c) => c,
        Err(_) => return Ok(vec![]),
    };
    let prev = p3_recursion::RecursionInput::UniStark { proof: &proof, air: &air, public_inputs: pis, preprocessed_commit: prep };
    Ok(nl_finish(&prev, &cfg))
}

pub fn next_layer_circ(b: &serde_json::Value, lookups: &[p3_lookup::Lookups<F>]) -> Result<Vec<(String, crate::kit::CircV)>, String> {
    let mut bsp: p3_circuit_prover::batch_stark_prover::BatchStarkProof<NlCfg> = de(b, "proof")?;
    bsp.stark_common.lookups = lookups.to_vec();
    let pis: Vec<Vec<F>> = de(b, "pis")?;
    let fri: crate::kit::FriSc = de(b, "fri")?;
    let cfg = match crate::kit::guard_circ("make_config", || NlCfg {
        config: std::sync::Arc::new(make_config(&fri)),
        params: vparams(&fri),
    }) {
        Ok(c) => c,
        Err(_) => return Ok(vec![]),
    };
    let prev: p3_recursion::RecursionInput<'_, NlCfg, p3_recursion::BatchOnly> = p3_recursion::RecursionInput::BatchStark {
        proof: &bsp,
        common_data: &bsp.stark_common,
        table_public_inputs: pis,
    };
    Ok(nl_finish(&prev, &cfg))
}
