// PCS flavour: TwoAdicFriPcs over plain Merkle-tree MMCSs (non-ZK). `include!`d into a
// configuration module that already defines F, Challenge, Dft, MyHash, MyCompress, MyMmcs,
// ChallengeMmcs, Challenger, DIGEST_ELEMS, default_perm(), perm_cfg().

pub type PcsT = p3_fri::TwoAdicFriPcs<F, Dft, MyMmcs, ChallengeMmcs>;
pub type SC = p3_uni_stark::StarkConfig<PcsT, Challenge, Challenger>;
pub type RecInMmcs = p3_recursion::pcs::RecValMmcs<F, DIGEST_ELEMS, MyHash, MyCompress>;
pub type RecExtMmcs = p3_recursion::pcs::RecExtensionValMmcs<F, Challenge, DIGEST_ELEMS, RecInMmcs>;
pub type InputProofT = p3_recursion::pcs::InputProofTargets<F, Challenge, RecInMmcs>;
pub type FriT =
    p3_recursion::pcs::FriProofTargets<F, Challenge, RecExtMmcs, InputProofT, p3_recursion::pcs::Witness<F>>;
pub type InnerFri = FriT;

pub fn make_config(fri: &crate::kit::FriSc) -> SC {
    let perm = default_perm();
    let hash = MyHash::new(perm.clone());
    let compress = MyCompress::new(perm.clone());
    let val_mmcs = MyMmcs::new(hash, compress, CAP_HEIGHT);
    let challenge_mmcs = ChallengeMmcs::new(val_mmcs.clone());
    let fri_params = p3_fri::FriParameters {
        log_blowup: fri.log_blowup,
        log_final_poly_len: fri.log_final_poly_len,
        max_log_arity: MAX_LOG_ARITY,
        num_queries: crate::kit::FRI_NUM_QUERIES,
        commit_proof_of_work_bits: fri.commit_pow_bits,
        query_proof_of_work_bits: fri.query_pow_bits,
        mmcs: challenge_mmcs,
    };
    let pcs = PcsT::new(Dft::default(), val_mmcs, fri_params);
    SC::new(pcs, Challenger::new(perm))
}

pub fn set_mmcs(
    runner: &mut p3_circuit::CircuitRunner<'_, Challenge>,
    op_ids: &[p3_circuit::NonPrimitiveOpId],
    proof: &PcsProofT,
) -> Result<(), String> {
    p3_recursion::pcs::set_fri_mmcs_private_data::<F, Challenge, ChallengeMmcs, MyMmcs, MyHash, MyCompress, DIGEST_ELEMS>(
        runner,
        op_ids,
        proof,
        perm_cfg(),
    )
    .map_err(|e| e.to_string())
}

pub fn fri_view(
    t: &InnerFri,
) -> (&FriT, Option<&p3_recursion::pcs::HidingOpenedValuesTargets<Challenge>>) {
    (t, None)
}

// ---- unified recursion API (`build_next_layer_circuit`) over this flavour ----

#[derive(Clone)]
pub struct NlCfg {
    config: std::sync::Arc<SC>,
    params: p3_recursion::FriVerifierParams,
}

impl p3_uni_stark::StarkGenericConfig for NlCfg {
    type Pcs = PcsT;
    type Challenge = Challenge;
    type Challenger = Challenger;
    fn pcs(&self) -> &PcsT {
        p3_uni_stark::StarkGenericConfig::pcs(&*self.config)
    }
    fn initialise_challenger(&self) -> Challenger {
        p3_uni_stark::StarkGenericConfig::initialise_challenger(&*self.config)
    }
}

impl p3_recursion::FriRecursionConfig for NlCfg {
    type Commitment = p3_recursion::pcs::MerkleCapTargets<F, DIGEST_ELEMS>;
    type InputProof = InputProofT;
    type OpeningProof = InnerFri;
    type RawOpeningProof = <PcsT as p3_commit::Pcs<Challenge, Challenger>>::Proof;
    const DIGEST_ELEMS: usize = DIGEST_ELEMS;

    fn with_fri_opening_proof<'a, A, R>(
        prev: &p3_recursion::RecursionInput<'a, Self, A>,
        f: impl FnOnce(&Self::RawOpeningProof) -> R,
    ) -> R
    where
        A: p3_recursion::RecursiveAir<F, Challenge, p3_lookup::logup::LogUpGadget>,
    {
        match prev {
            p3_recursion::RecursionInput::UniStark { proof, .. } => f(&proof.opening_proof),
            p3_recursion::RecursionInput::BatchStark { proof, .. } => f(&proof.proof.opening_proof),
        }
    }

    fn prepare_circuit_for_verification(
        &self,
        circuit: &mut p3_circuit::CircuitBuilder<Challenge>,
    ) -> Result<(), p3_recursion::VerificationError> {
        enable_ops(circuit);
        Ok(())
    }

    fn pcs_verifier_params(&self) -> &p3_recursion::FriVerifierParams {
        &self.params
    }

    fn set_fri_private_data(
        runner: &mut p3_circuit::CircuitRunner<'_, Challenge>,
        op_ids: &[p3_circuit::NonPrimitiveOpId],
        opening_proof: &Self::RawOpeningProof,
    ) -> Result<(), &'static str> {
        p3_recursion::pcs::set_fri_mmcs_private_data::<F, Challenge, ChallengeMmcs, MyMmcs, MyHash, MyCompress, DIGEST_ELEMS>(
            runner,
            op_ids,
            opening_proof,
            perm_cfg(),
        )
    }
}

fn nl_finish<A>(
    prev: &p3_recursion::RecursionInput<'_, NlCfg, A>,
    cfg: &NlCfg,
) -> Vec<(String, crate::kit::CircV)>
where
    A: p3_recursion::RecursiveAir<F, Challenge, p3_lookup::logup::LogUpGadget>,
    NlBackend: p3_recursion::PcsRecursionBackend<NlCfg, A, D>,
{
    use crate::kit::{CircV, guard_circ, variant_of};
    use p3_recursion::{PcsRecursionBackend, VerifierCircuitResult};
    const EP: &str = "build_next_layer_circuit";
    let backend = nl_backend();
    let built = guard_circ(EP, || p3_recursion::build_next_layer_circuit::<NlCfg, A, NlBackend, D>(prev, cfg, &backend));
    let (circuit, vr) = match built {
        Ok(Ok(x)) => x,
        Ok(Err(e)) => return vec![(EP.to_string(), build_err(&e))],
        Err(p) => return vec![(EP.to_string(), p)],
    };
    let mut out = vec![(EP.to_string(), CircV::Accept)];
    // C15: structural hash of the circuit the builder returned (carried in a `Precond` entry)
    out.push((format!("{EP}#fingerprint"), CircV::Precond(format!("{:016x}", circuit_fingerprint(&circuit)))));
    let run = guard_circ("build_next_layer_circuit+run", || -> CircV {
        let pubs = match vr.pack_public_inputs(prev) {
            Ok(p) => p,
            Err(e) => return CircV::Reject(format!("pack_public_inputs:{}", variant_of(&format!("{e:?}")))),
        };
        let privs = match vr.pack_private_inputs(prev) {
            Ok(p) => p,
            Err(e) => return CircV::Reject(format!("pack_private_inputs:{}", variant_of(&format!("{e:?}")))),
        };
        let mut runner = circuit.runner();
        if let Err(e) = runner.set_public_inputs(&pubs) {
            return CircV::Reject(format!("set_public_inputs:{}", variant_of(&format!("{e:?}"))));
        }
        if let Err(e) = runner.set_private_inputs(&privs) {
            return CircV::Reject(format!("set_private_inputs:{}", variant_of(&format!("{e:?}"))));
        }
        if let Err(e) = backend.set_private_data(cfg, &mut runner, vr.op_ids(), prev) {
            return CircV::Reject(format!("set_private_data:{e}"));
        }
        match runner.run() {
            Ok(_) => CircV::Accept,
            Err(e) => CircV::Reject(variant_of(&format!("{e:?}"))),
        }
    });
    out.push(("build_next_layer_circuit+run".to_string(), run.unwrap_or_else(|p| p)));
    out
}

pub fn next_layer_uni(air: crate::kit::airs::TAir, b: &serde_json::Value) -> Result<Vec<(String, crate::kit::CircV)>, String> {
    let proof: p3_uni_stark::Proof<NlCfg> = de(b, "proof")?;
    let pis: Vec<F> = de(b, "pis")?;
    let prep: Option<ComV> = de(b, "prep")?;
    let fri: crate::kit::FriSc = de(b, "fri")?;
    let cfg = match crate::kit::guard_circ("make_config", || NlCfg {
        config: std::sync::Arc::new(make_config(&fri)),
        params: vparams(&fri),
    }) {
        Ok(c) => c,
        Err(_) => return Ok(vec![]),
    };
    let prev = p3_recursion::RecursionInput::UniStark { proof: &proof, air: &air, public_inputs: pis, preprocessed_commit: prep };
    Ok(nl_finish(&prev, &cfg))
}

pub fn next_layer_circ(b: &serde_json::Value, lookups: &[p3_lookup::Lookups<F>]) -> Result<Vec<(String, crate::kit::CircV)>, String> {
    let mut bsp: p3_circuit_prover::batch_stark_prover::BatchStarkProof<NlCfg> = de(b, "proof")?;
    bsp.stark_common.lookups = lookups.to_vec();
    let pis: Vec<Vec<F>> = de(b, "pis")?;
    let fri: crate::kit::FriSc = de(b, "fri")?;
    let cfg = match crate::kit::guard_circ("make_config", || NlCfg {
        config: std::sync::Arc::new(make_config(&fri)),
        params: vparams(&fri),
    }) {
        Ok(c) => c,
        Err(_) => return Ok(vec![]),
    };
    let prev: p3_recursion::RecursionInput<'_, NlCfg, p3_recursion::BatchOnly> = p3_recursion::RecursionInput::BatchStark {
        proof: &bsp,
        common_data: &bsp.stark_common,
        table_public_inputs: pis,
    };
    Ok(nl_finish(&prev, &cfg))
}

/// The honest circuit proof offered to the next-layer path together with a verifying key that
/// differs from the proof's own `stark_common` in one word of the preprocessed commitment (what a
/// verifier holding its own key and receiving a proof over the wire has). The circuit is built for
/// the key, public inputs are packed by the backend, the circuit is run.
pub fn next_layer_circ_foreign_key(b: &serde_json::Value, lookups: &[p3_lookup::Lookups<F>]) -> Result<Vec<(String, crate::kit::CircV)>, String> {
    fn bump_first_number(v: &mut serde_json::Value, delta: i64) -> bool {
        match v {
            serde_json::Value::Number(n) => {
                let Some(x) = n.as_u64() else { return false };
                let y = if delta > 0 { x + 1 } else if x > 0 { x - 1 } else { return false };
                *v = serde_json::Value::from(y);
                true
            }
            serde_json::Value::Array(a) => a.iter_mut().any(|x| bump_first_number(x, delta)),
            serde_json::Value::Object(o) => o.values_mut().any(|x| bump_first_number(x, delta)),
            _ => false,
        }
    }
    let mut bsp: p3_circuit_prover::batch_stark_prover::BatchStarkProof<NlCfg> = de(b, "proof")?;
    bsp.stark_common.lookups = lookups.to_vec();
    let mut key_holder = None;
    for delta in [1i64, -1] {
        let mut b2 = b.clone();
        let c = &mut b2["proof"]["stark_common"]["commitment"];
        if c.is_null() || !bump_first_number(c, delta) {
            continue;
        }
        if let Ok(mut other) = de::<p3_circuit_prover::batch_stark_prover::BatchStarkProof<NlCfg>>(&b2, "proof") {
            other.stark_common.lookups = lookups.to_vec();
            key_holder = Some(other);
            break;
        }
    }
    let Some(key_holder) = key_holder else { return Ok(vec![]) };
    let pis: Vec<Vec<F>> = de(b, "pis")?;
    let fri: crate::kit::FriSc = de(b, "fri")?;
    let cfg = match crate::kit::guard_circ("make_config", || NlCfg { config: std::sync::Arc::new(make_config(&fri)), params: vparams(&fri) }) {
        Ok(c) => c,
        Err(_) => return Ok(vec![]),
    };
    let prev: p3_recursion::RecursionInput<'_, NlCfg, p3_recursion::BatchOnly> = p3_recursion::RecursionInput::BatchStark {
        proof: &bsp,
        common_data: &key_holder.stark_common,
        table_public_inputs: pis,
    };
    Ok(nl_finish(&prev, &cfg)
        .into_iter()
        .filter(|(ep, _)| !ep.ends_with("#fingerprint"))
        .map(|(ep, v)| (format!("{ep}@foreign-verifying-key"), v))
        .collect())
}

// ---- `verify_fri_circuit` called on its own, with malformed *arguments* ----

/// Builds the arguments of `verify_fri_circuit` for the honest uni-STARK proof the way
/// `verify_p3_uni_proof_circuit` does (challenges as fresh inputs), applies one argument-level
/// mutation and calls it. Outcome: Accept = built, BuildErr = typed error, Panic = panic.
pub fn fri_arg_mutants(air: crate::kit::airs::TAir, b: &serde_json::Value) -> Result<Vec<(String, crate::kit::CircV)>, String> {
    use crate::kit::{CircV, guard_circ};
    use p3_commit::{Pcs, PolynomialSpace};
    use p3_recursion::Target;
    let _ = air;
    let proof: p3_uni_stark::Proof<SC> = de(b, "proof")?;
    let pis: Vec<F> = de(b, "pis")?;
    let prep: Option<ComV> = de(b, "prep")?;
    let fri: crate::kit::FriSc = de(b, "fri")?;
    let config = make_config(&fri);
    let pcs = p3_uni_stark::StarkGenericConfig::pcs(&config);
    let db = proof.degree_bits;
    let nq = proof.opened_values.quotient_chunks.len();
    if !nq.is_power_of_two() || db > 20 {
        return Ok(vec![]);
    }
    let log_qd = p3_util::log2_strict_usize(nq);
    let trace_domain = <PcsT as Pcs<Challenge, Challenger>>::natural_domain_for_degree(pcs, 1 << db);
    let qdom = trace_domain.create_disjoint_domain(1 << (db + log_qd));
    let qdoms = qdom.split_domains(nq);
    let n_betas = proof.opening_proof.commit_phase_commits.len();
    let total_log: usize = proof
        .opening_proof
        .query_proofs
        .first()
        .map(|q| q.commit_phase_openings.iter().map(|o| o.log_arity as usize).sum())
        .unwrap_or(0);
    let log_max_h = total_log + fri.log_final_poly_len + fri.log_blowup;
    let n_queries = proof.opening_proof.query_proofs.len();
    const MUTS: &[&str] = &[
        "none", "betas:drop-last", "betas:dup-last", "betas:empty",
        "bits:drop-query", "bits:dup-query", "bits:empty", "bits[0]:drop-last", "bits[0]:dup-last", "bits[0]:empty",
        "bits[last]:drop-last", "coms:drop-last", "coms:dup-last", "coms:empty", "coms:swap",
        "coms[0].mats:empty", "coms[1].mats:drop-last", "coms[1].mats:dup-last", "coms[0].points:drop-last",
        "coms[0].points:empty", "coms[0].values:drop-last", "coms[0].values:dup-last", "coms[0].values:empty",
        "log_blowup:0", "log_blowup:+1", "log_blowup:-1", "log_blowup:64", "log_blowup:max",
    ];
    let mut out = vec![];
    for m in MUTS {
        let r = guard_circ("verify_fri_circuit", || {
            let mut cb = new_builder();
            let vi = p3_recursion::StarkVerifierInputsBuilder::<SC, Comm, InnerFri>::allocate(
                &mut cb,
                &proof,
                prep.as_ref(),
                pis.len(),
            );
            let pt = &vi.proof_targets;
            let o = &pt.opened_values_targets;
            let zeta = cb.public_input();
            let zeta_next = cb.public_input();
            let alpha = cb.public_input();
            let mut betas: Vec<Target> = (0..n_betas).map(|_| cb.public_input()).collect();
            let mut bits: Vec<Vec<Target>> =
                (0..n_queries).map(|_| (0..log_max_h).map(|_| cb.public_input()).collect()).collect();
            let mut coms = vec![
                (
                    pt.commitments_targets.trace_targets.clone(),
                    vec![(
                        trace_domain,
                        vec![(zeta, o.trace_local_targets.clone()), (zeta_next, o.trace_next_targets.clone())],
                    )],
                ),
                (
                    pt.commitments_targets.quotient_chunks_targets.clone(),
                    qdoms.iter().zip(o.quotient_chunks_targets.iter()).map(|(d, v)| (*d, vec![(zeta, v.clone())])).collect(),
                ),
            ];
            if let (Some(pc), Some(pl), Some(pn)) =
                (&vi.preprocessed_commit, &o.preprocessed_local_targets, &o.preprocessed_next_targets)
            {
                coms.push((pc.clone(), vec![(trace_domain, vec![(zeta, pl.clone()), (zeta_next, pn.clone())])]));
            }
            let mut log_blowup = fri.log_blowup;
            match *m {
                "betas:drop-last" => {
                    betas.pop();
                }
                "betas:dup-last" => {
                    if let Some(l) = betas.last().copied() {
                        betas.push(l);
                    }
                }
                "betas:empty" => betas.clear(),
                "bits:drop-query" => {
                    bits.pop();
                }
                "bits:dup-query" => {
                    if let Some(l) = bits.last().cloned() {
                        bits.push(l);
                    }
                }
                "bits:empty" => bits.clear(),
                "bits[0]:drop-last" => {
                    bits[0].pop();
                }
                "bits[0]:dup-last" => {
                    if let Some(l) = bits[0].last().copied() {
                        bits[0].push(l);
                    }
                }
                "bits[0]:empty" => bits[0].clear(),
                "bits[last]:drop-last" => {
                    if let Some(l) = bits.last_mut() {
                        l.pop();
                    }
                }
                "coms:drop-last" => {
                    coms.pop();
                }
                "coms:dup-last" => {
                    if let Some(l) = coms.last().cloned() {
                        coms.push(l);
                    }
                }
                "coms:empty" => coms.clear(),
                "coms:swap" => coms.swap(0, 1),
                "coms[0].mats:empty" => coms[0].1.clear(),
                "coms[1].mats:drop-last" => {
                    coms[1].1.pop();
                }
                "coms[1].mats:dup-last" => {
                    if let Some(l) = coms[1].1.last().cloned() {
                        coms[1].1.push(l);
                    }
                }
                "coms[0].points:drop-last" => {
                    coms[0].1[0].1.pop();
                }
                "coms[0].points:empty" => coms[0].1[0].1.clear(),
                "coms[0].values:drop-last" => {
                    coms[0].1[0].1[0].1.pop();
                }
                "coms[0].values:dup-last" => {
                    if let Some(l) = coms[0].1[0].1[0].1.last().copied() {
                        coms[0].1[0].1[0].1.push(l);
                    }
                }
                "coms[0].values:empty" => coms[0].1[0].1[0].1.clear(),
                "log_blowup:0" => log_blowup = 0,
                "log_blowup:+1" => log_blowup += 1,
                "log_blowup:-1" => log_blowup = log_blowup.saturating_sub(1),
                "log_blowup:64" => log_blowup = 64,
                "log_blowup:max" => log_blowup = usize::MAX,
                _ => {}
            }
            p3_recursion::pcs::verify_fri_circuit(
                &mut cb,
                &pt.opening_proof,
                alpha,
                &betas,
                &bits,
                &coms,
                log_blowup,
                Some(perm_cfg().into()),
            )
            .map(|_| ())
        });
        let v = match r {
            Ok(Ok(())) => CircV::Accept,
            Ok(Err(e)) => build_err(&e),
            Err(p) => p,
        };
        out.push((m.to_string(), v));
    }
    Ok(out)
}
