//! Small AIRs used as proof sources (independent re-statements of the AIRs used by the repo's
//! own integration tests: multiplication with/without preprocessed columns, Fibonacci with public
//! values, addition without preprocessed columns, subtraction with one preprocessed column, an AIR
//! binding one public value).

use p3_air::{Air, AirBuilder, BaseAir, WindowAccess};
use p3_field::{Field, PrimeCharacteristicRing, PrimeField64};
use p3_matrix::dense::RowMajorMatrix;

/// One enum so that every (configuration, AIR) pair goes through the same concrete code.
#[derive(Clone, Copy, Debug)]
pub enum TAir {
    /// `reps` triples (a,b,c) with a^(degree-1)*b = c; a,b preprocessed if `prep`.
    Mul { degree: u64, rows: usize, reps: usize, prep: bool },
    /// Fibonacci with 3 public values (a, b, x).
    Fib { rows: usize },
    /// a + b = c, no next-row access, no preprocessed columns (batch only).
    Add { rows: usize },
    /// a - k = r with k preprocessed, no next-row access (batch only).
    Sub { rows: usize },
    /// first row: local[0] == public[0]; width 2.
    Pv { rows: usize },
    /// a + b = c declared row-local (`main_next_row_columns()` empty): the honest proof carries no
    /// `trace_next` opening for this instance (batch only; used by the C15 shape list).
    AddRl { rows: usize },
    /// b = a * p0 + p1 with two periodic columns (periods 2 and 4); width 2.
    Per { rows: usize },
    /// `Sub` that also declares its preprocessed column row-local
    /// (`preprocessed_next_row_columns()` empty): the honest proof carries no `preprocessed_next`.
    SubRl { rows: usize },
    /// width 2: column `a` and column `lut`, a permutation of `a`; every `a` is looked up in `lut`
    /// through one local LogUp interaction (batch only: the uni-STARK builders cannot record it).
    /// In a batch next to lookup-free AIRs the proof's `lookup_terminals` mixes `Some` and `None`.
    Lk { rows: usize },
}

/// One AIR enum has to serve builders with and without lookup support (the uni-STARK builders do
/// not implement `InteractionBuilder`): the lookup is pushed where the builder can record it.
pub trait KitLookup: AirBuilder {
    fn kit_local_lookup(&mut self, tuples: Vec<(Vec<Self::Expr>, p3_lookup::Count<Self::Expr>)>);
}
macro_rules! kit_lookup_forward {
    ($([$($g:tt)*] $t:ty),* $(,)?) => {$(
        impl<$($g)*> KitLookup for $t {
            fn kit_local_lookup(&mut self, tuples: Vec<(Vec<Self::Expr>, p3_lookup::Count<Self::Expr>)>) {
                p3_lookup::InteractionBuilder::push_local_interaction(self, tuples);
            }
        }
    )*};
}
macro_rules! kit_lookup_noop {
    ($([$($g:tt)*] $t:ty),* $(,)?) => {$(
        impl<$($g)*> KitLookup for $t {
            fn kit_local_lookup(&mut self, _tuples: Vec<(Vec<Self::Expr>, p3_lookup::Count<Self::Expr>)>) {}
        }
    )*};
}
kit_lookup_forward!(
    [F: Field, EF: p3_field::ExtensionField<F>] p3_lookup::InteractionSymbolicBuilder<F, EF>,
    ['a, SC: p3_uni_stark::StarkGenericConfig] p3_lookup::folder::ProverConstraintFolderWithLookups<'a, SC>,
    ['a, SC: p3_uni_stark::StarkGenericConfig] p3_lookup::folder::VerifierConstraintFolderWithLookups<'a, SC>,
    ['a, F: Field, EF: p3_field::ExtensionField<F>] p3_air::DebugConstraintBuilder<'a, F, EF>,
);
kit_lookup_noop!(
    [F: Field, EF: p3_field::ExtensionField<F>] p3_air::symbolic::SymbolicAirBuilder<F, EF>,
    ['a, SC: p3_uni_stark::StarkGenericConfig] p3_uni_stark::ProverConstraintFolder<'a, SC>,
    ['a, SC: p3_uni_stark::StarkGenericConfig] p3_uni_stark::VerifierConstraintFolder<'a, SC>,
);

fn lcg(state: &mut u64) -> u64 {
    *state = state.wrapping_mul(6364136223846793005).wrapping_add(1442695040888963407);
    *state >> 33
}

impl TAir {
    pub fn label(&self) -> String {
        match self {
            TAir::Mul { degree, rows, reps, prep } => {
                format!("mul-d{degree}-r{rows}-x{reps}-{}", if *prep { "prep" } else { "noprep" })
            }
            TAir::Fib { rows } => format!("fib-r{rows}"),
            TAir::Add { rows } => format!("add-r{rows}"),
            TAir::Sub { rows } => format!("sub-r{rows}"),
            TAir::Pv { rows } => format!("pv-r{rows}"),
            TAir::AddRl { rows } => format!("addrl-r{rows}"),
            TAir::Per { rows } => format!("per-r{rows}"),
            TAir::SubRl { rows } => format!("subrl-r{rows}"),
            TAir::Lk { rows } => format!("lk-r{rows}"),
        }
    }

    pub fn rows(&self) -> usize {
        match self {
            TAir::Mul { rows, .. }
            | TAir::Fib { rows }
            | TAir::Add { rows }
            | TAir::Sub { rows }
            | TAir::Pv { rows }
            | TAir::AddRl { rows }
            | TAir::SubRl { rows }
            | TAir::Lk { rows }
            | TAir::Per { rows } => *rows,
        }
    }

    /// (main trace, preprocessed trace if any, public values)
    pub fn generate<V: Field + PrimeField64>(&self) -> (RowMajorMatrix<V>, Option<RowMajorMatrix<V>>, Vec<V>) {
        match *self {
            TAir::Mul { degree, rows, reps, prep } => {
                let mut st = 0x1234_5678u64;
                let mut a_b = Vec::with_capacity(rows * reps * 2);
                let mut c = Vec::with_capacity(rows * reps);
                for row in 0..rows {
                    for r in 0..reps {
                        let i = row * reps + r;
                        let a = V::from_usize(i);
                        let b = if row == 0 { a.square() + V::ONE } else { V::from_u64(lcg(&mut st)) };
                        a_b.push(a);
                        a_b.push(b);
                        c.push(a.exp_u64(degree - 1) * b);
                    }
                }
                if prep {
                    (RowMajorMatrix::new(c, reps), Some(RowMajorMatrix::new(a_b, reps * 2)), vec![])
                } else {
                    let mut all = Vec::with_capacity(rows * reps * 3);
                    for row in 0..rows {
                        for r in 0..reps {
                            let i = row * reps + r;
                            all.push(a_b[2 * i]);
                            all.push(a_b[2 * i + 1]);
                            all.push(c[i]);
                        }
                    }
                    (RowMajorMatrix::new(all, reps * 3), None, vec![])
                }
            }
            TAir::Fib { rows } => {
                let mut v = Vec::with_capacity(rows * 2);
                let (mut a, mut b) = (V::ZERO, V::ONE);
                for _ in 0..rows {
                    v.push(a);
                    v.push(b);
                    let n = a + b;
                    a = b;
                    b = n;
                }
                let x = v[2 * (rows - 1) + 1];
                (RowMajorMatrix::new(v, 2), None, vec![V::ZERO, V::ONE, x])
            }
            TAir::Add { rows } | TAir::AddRl { rows } => {
                let mut v = Vec::with_capacity(rows * 3);
                for row in 0..rows {
                    let a = V::from_usize(row);
                    let b = V::from_usize(row + 1);
                    v.extend([a, b, a + b]);
                }
                (RowMajorMatrix::new(v, 3), None, vec![])
            }
            TAir::Sub { rows } | TAir::SubRl { rows } => {
                let mut v = Vec::with_capacity(rows * 2);
                let mut p = Vec::with_capacity(rows);
                for row in 0..rows {
                    let a = V::from_usize(row + 10);
                    let k = V::from_usize(5);
                    v.extend([a, a - k]);
                    p.push(k);
                }
                (RowMajorMatrix::new(v, 2), Some(RowMajorMatrix::new(p, 1)), vec![])
            }
            TAir::Pv { rows } => {
                let mut v = Vec::with_capacity(rows * 2);
                for row in 0..rows {
                    v.extend([V::from_usize(row + 42), V::from_usize(row + 1)]);
                }
                let pv = v[0];
                (RowMajorMatrix::new(v, 2), None, vec![pv])
            }
            TAir::Lk { rows } => {
                // a_i = 3 i + 5; lut = the same values rotated by one row
                let mut v = Vec::with_capacity(rows * 2);
                for row in 0..rows {
                    v.extend([V::from_usize(3 * row + 5), V::from_usize(3 * ((row + 1) % rows) + 5)]);
                }
                (RowMajorMatrix::new(v, 2), None, vec![])
            }
            TAir::Per { rows } => {
                let mut v = Vec::with_capacity(rows * 2);
                for row in 0..rows {
                    let a = V::from_usize(row + 7);
                    let p0 = V::from_usize(1 + row % 2);
                    let p1 = V::from_usize(3 + row % 4);
                    v.extend([a, a * p0 + p1]);
                }
                (RowMajorMatrix::new(v, 2), None, vec![])
            }
        }
    }
}

impl<V: Field + PrimeField64> BaseAir<V> for TAir {
    fn width(&self) -> usize {
        match *self {
            TAir::Mul { reps, prep, .. } => {
                if prep {
                    reps
                } else {
                    reps * 3
                }
            }
            TAir::Fib { .. } => 2,
            TAir::Add { .. } | TAir::AddRl { .. } => 3,
            TAir::Sub { .. } | TAir::SubRl { .. } => 2,
            TAir::Pv { .. } => 2,
            TAir::Lk { .. } => 2,
            TAir::Per { .. } => 2,
        }
    }
    fn num_periodic_columns(&self) -> usize {
        match *self {
            TAir::Per { .. } => 2,
            _ => 0,
        }
    }
    fn periodic_columns(&self) -> Vec<Vec<V>> {
        match *self {
            TAir::Per { .. } => vec![
                vec![V::from_usize(1), V::from_usize(2)],
                vec![V::from_usize(3), V::from_usize(4), V::from_usize(5), V::from_usize(6)],
            ],
            _ => vec![],
        }
    }
    fn preprocessed_width(&self) -> usize {
        match *self {
            TAir::Mul { reps, prep: true, .. } => reps * 2,
            TAir::Sub { .. } | TAir::SubRl { .. } => 1,
            _ => 0,
        }
    }
    fn preprocessed_next_row_columns(&self) -> Vec<usize> {
        match *self {
            TAir::SubRl { .. } => vec![],
            _ => (0..<Self as BaseAir<V>>::preprocessed_width(self)).collect(),
        }
    }
    fn preprocessed_trace(&self) -> Option<RowMajorMatrix<V>> {
        self.generate::<V>().1
    }
    fn num_public_values(&self) -> usize {
        match *self {
            TAir::Fib { .. } => 3,
            TAir::Pv { .. } => 1,
            _ => 0,
        }
    }
    fn main_next_row_columns(&self) -> Vec<usize> {
        match *self {
            TAir::AddRl { .. } | TAir::SubRl { .. } => vec![],
            // the p3-air default: every column
            _ => (0..<Self as BaseAir<V>>::width(self)).collect(),
        }
    }
}

impl<AB: AirBuilder + KitLookup> Air<AB> for TAir
where
    AB::F: Field + PrimeField64,
{
    fn eval(&self, builder: &mut AB) {
        match *self {
            TAir::Mul { degree, reps, prep, .. } => {
                let main = builder.main();
                let local = main.current_slice().to_vec();
                let next = main.next_slice().to_vec();
                if prep {
                    let p = builder.preprocessed().clone();
                    let pl = p.current_slice().to_vec();
                    let pn = p.next_slice().to_vec();
                    for i in 0..reps {
                        let a = pl[2 * i];
                        let b = pl[2 * i + 1];
                        let c = local[i];
                        builder.assert_zero(a.into().exp_u64(degree - 1) * b - c);
                        builder.when_first_row().assert_eq(a * a + AB::Expr::ONE, b);
                        builder
                            .when_transition()
                            .assert_eq(a + AB::Expr::from_u8(reps as u8), pn[2 * i]);
                    }
                } else {
                    for i in 0..reps {
                        let a = local[3 * i];
                        let b = local[3 * i + 1];
                        let c = local[3 * i + 2];
                        builder.assert_zero(a.into().exp_u64(degree - 1) * b - c);
                        builder.when_first_row().assert_eq(a * a + AB::Expr::ONE, b);
                        builder
                            .when_transition()
                            .assert_eq(a + AB::Expr::from_u8(reps as u8), next[3 * i]);
                    }
                }
            }
            TAir::Fib { .. } => {
                let main = builder.main();
                let l = main.current_slice().to_vec();
                let n = main.next_slice().to_vec();
                let pis = builder.public_values().to_vec();
                let (a, b, x) = (pis[0], pis[1], pis[2]);
                {
                    let mut f = builder.when_first_row();
                    f.assert_eq(l[0], a);
                    f.assert_eq(l[1], b);
                }
                {
                    let mut t = builder.when_transition();
                    t.assert_eq(l[1], n[0]);
                    t.assert_eq(l[0] + l[1], n[1]);
                }
                builder.when_last_row().assert_eq(l[1], x);
            }
            TAir::Add { .. } | TAir::AddRl { .. } => {
                let main = builder.main();
                let l = main.current_slice().to_vec();
                builder.assert_zero(l[0] + l[1] - l[2]);
            }
            TAir::Sub { .. } | TAir::SubRl { .. } => {
                let main = builder.main();
                let l = main.current_slice().to_vec();
                let p = builder.preprocessed().clone();
                let k = p.current_slice()[0];
                builder.assert_zero(l[0] - k - l[1]);
            }
            TAir::Lk { .. } => {
                let main = builder.main();
                let l = main.current_slice().to_vec();
                let n = main.next_slice().to_vec();
                // keep a real transition constraint so that the AIR opens the next row
                builder.when_transition().assert_zero(n[0] - l[0] - AB::Expr::from_u8(3));
                let (a, lut): (AB::Expr, AB::Expr) = (l[0].into(), l[1].into());
                builder.kit_local_lookup(vec![
                    (vec![a], p3_lookup::Count::bounded(AB::Expr::ONE, 1)),
                    (vec![lut], p3_lookup::Count::provided(-AB::Expr::ONE)),
                ]);
            }
            TAir::Pv { .. } => {
                let main = builder.main();
                let l = main.current_slice().to_vec();
                let pi0 = builder.public_values()[0];
                builder.when_first_row().assert_eq(l[0], pi0);
            }
            TAir::Per { .. } => {
                let main = builder.main();
                let l = main.current_slice().to_vec();
                let p0: AB::Expr = builder.periodic_values()[0].into();
                let p1: AB::Expr = builder.periodic_values()[1].into();
                builder.assert_zero(l[0].into() * p0 + p1 - l[1].into());
            }
        }
    }
}
