// Configuration-independent body, `include!`d into every configuration module after the PCS
// flavour file. Everything here is type-checked against the concrete types of that module.

use p3_field::PrimeField64 as _;
use serde_json::{Value, json};

use crate::kit::airs::TAir;
use crate::kit::json::{self as js, Path};
use crate::kit::{CircV, Compiled, Ctx, Entry, FriSc, NativeV, RunOut, Shape, guard_circ, norm_site, variant_of};

pub type Comm = p3_recursion::pcs::MerkleCapTargets<F, DIGEST_ELEMS>;
pub type ComV = <PcsT as p3_commit::Pcs<Challenge, Challenger>>::Commitment;
pub type PcsProofT = <PcsT as p3_commit::Pcs<Challenge, Challenger>>::Proof;
type LG = p3_lookup::logup::LogUpGadget;

fn vparams(fri: &FriSc) -> p3_recursion::FriVerifierParams {
    p3_recursion::FriVerifierParams::with_mmcs(
        fri.log_blowup,
        fri.log_final_poly_len,
        fri.commit_pow_bits,
        fri.query_pow_bits,
        perm_cfg(),
    )
}

fn ef_coeffs(e: &Challenge) -> Vec<u64> {
    <Challenge as BasedVectorSpace<F>>::as_basis_coefficients_slice(e)
        .iter()
        .map(|c| c.as_canonical_u64())
        .collect()
}

fn canon_repr(repr: u64) -> Option<u64> {
    serde_json::from_value::<F>(Value::from(repr)).ok().map(|f| f.as_canonical_u64())
}

fn ef_from(c: &[u64]) -> Result<Challenge, String> {
    if c.len() != D {
        return Err(format!("coefficient vector of length {} (D={})", c.len(), D));
    }
    let v: Vec<F> = c.iter().map(|x| F::from_u64(*x)).collect();
    <Challenge as BasedVectorSpace<F>>::from_basis_coefficients_slice(&v).ok_or_else(|| "bad coefficients".to_string())
}

fn de<T: serde::de::DeserializeOwned>(b: &Value, key: &str) -> Result<T, String> {
    let v = b.get(key).cloned().unwrap_or(Value::Null);
    serde_json::from_value::<T>(v).map_err(|e| format!("{key}: {e}"))
}

/// (verdict, full Debug rendering of the error when the native verifier rejected)
fn native_verdict<E: core::fmt::Debug>(r: Result<Result<(), E>, String>) -> (NativeV, Option<String>) {
    match r {
        Ok(Ok(())) => (NativeV::Accept, None),
        Ok(Err(e)) => {
            let d = format!("{e:?}");
            (NativeV::Reject(variant_of(&d)), Some(d))
        }
        Err(m) => (NativeV::Panic(norm_site(&m)), None),
    }
}

fn build_err(e: &p3_recursion::VerificationError) -> CircV {
    use p3_recursion::VerificationError as VE;
    match e {
        VE::InvalidProofShape(m) => {
            // keep the message class without numbers
            let cls: String = m.chars().filter(|c| !c.is_ascii_digit()).take(60).collect();
            CircV::BuildErr(format!("InvalidProofShape({cls})"))
        }
        other => CircV::BuildErr(variant_of(&format!("{other:?}"))),
    }
}

/// Shared: set inputs + MMCS private data + run.
fn run_inner(
    circuit: &p3_circuit::Circuit<Challenge>,
    op_ids: &[p3_circuit::NonPrimitiveOpId],
    opening: &PcsProofT,
    pubs: &[Challenge],
    privs: &[Challenge],
    read: &[u32],
) -> RunOut {
    let r = guard_circ("run", || -> (CircV, Vec<Option<Vec<u64>>>) {
        let mut runner = circuit.runner();
        if let Err(e) = runner.set_public_inputs(pubs) {
            return (CircV::Reject(format!("set_public_inputs:{}", variant_of(&format!("{e:?}")))), vec![]);
        }
        if let Err(e) = runner.set_private_inputs(privs) {
            return (CircV::Reject(format!("set_private_inputs:{}", variant_of(&format!("{e:?}")))), vec![]);
        }
        if !op_ids.is_empty() {
            if let Err(e) = set_mmcs(&mut runner, op_ids, opening) {
                let cls: String = e.chars().take(40).collect();
                return (CircV::Reject(format!("mmcs-private-data:{cls}")), vec![]);
            }
        }
        match runner.run() {
            Ok(traces) => {
                let slots = read
                    .iter()
                    .map(|w| traces.witness_trace.get_value(p3_circuit::WitnessId(*w)).map(ef_coeffs))
                    .collect();
                (CircV::Accept, slots)
            }
            Err(e) => (CircV::Reject(variant_of(&format!("{e:?}"))), vec![]),
        }
    });
    match r {
        Ok((verdict, slots)) => RunOut { verdict, slots },
        Err(p) => RunOut { verdict: p, slots: vec![] },
    }
}

/// Structural hash of a built circuit (see `Compiled::fingerprint`).
pub(crate) fn circuit_fingerprint(c: &p3_circuit::Circuit<Challenge>) -> u64 {
    use p3_circuit::Op;
    struct H(u64);
    impl H {
        fn u(&mut self, x: u64) {
            for b in x.to_le_bytes() {
                self.0 ^= b as u64;
                self.0 = self.0.wrapping_mul(0x100000001b3);
            }
        }
        fn ws(&mut self, ws: &[p3_circuit::WitnessId]) {
            self.u(ws.len() as u64);
            for w in ws {
                self.u(w.0 as u64);
            }
        }
        fn ow(&mut self, w: &Option<p3_circuit::WitnessId>) {
            self.u(w.map_or(u64::MAX, |w| w.0 as u64));
        }
    }
    let mut h = H(0xcbf29ce484222325);
    h.u(c.witness_count as u64);
    h.u(c.public_flat_len as u64);
    h.u(c.private_flat_len as u64);
    h.ws(&c.public_rows);
    h.ws(&c.private_input_rows);
    h.u(c.ops.len() as u64);
    for op in &c.ops {
        match op {
            Op::Const { out, val } => {
                h.u(1);
                h.u(out.0 as u64);
                for x in ef_coeffs(val) {
                    h.u(x);
                }
            }
            Op::Public { out, public_pos } => {
                h.u(2);
                h.u(out.0 as u64);
                h.u(*public_pos as u64);
            }
            Op::Alu { kind, a, b, c, out, intermediate_out } => {
                h.u(3);
                h.u(*kind as u64);
                h.u(a.0 as u64);
                h.u(b.0 as u64);
                h.ow(c);
                h.u(out.0 as u64);
                h.ow(intermediate_out);
            }
            Op::Hint { inputs, outputs, .. } => {
                h.u(4);
                h.ws(inputs);
                h.ws(outputs);
            }
            Op::NonPrimitiveOpWithExecutor { inputs, outputs, op_id, .. } => {
                h.u(5);
                h.u(op_id.0 as u64);
                h.u(inputs.len() as u64);
                for i in inputs {
                    h.ws(i);
                }
                h.u(outputs.len() as u64);
                for o in outputs {
                    h.ws(o);
                }
            }
        }
    }
    h.0
}

fn to_ef_vec(v: &[Vec<u64>]) -> Result<Vec<Challenge>, String> {
    v.iter().map(|c| ef_from(c)).collect()
}

// ------------------------------------------------------------------------------------------
// C14 walkers (hand-written; independent of Recursive::new / get_values)
// ------------------------------------------------------------------------------------------

struct Walk<'a> {
    b: &'a Value,
    out: Vec<Entry>,
}

impl<'a> Walk<'a> {
    fn arr_len(&self, p: &Path) -> Result<usize, String> {
        match js::get(self.b, p) {
            Some(Value::Array(a)) => Ok(a.len()),
            Some(Value::Null) | None => Ok(0),
            Some(_) => Err(format!("walker: {} is not an array", js::path_str(p))),
        }
    }
    fn is_null(&self, p: &Path) -> bool {
        matches!(js::get(self.b, p), None | Some(Value::Null))
    }
    fn one(&mut self, t: p3_recursion::Target, path: Path, ext: bool, public: bool) {
        self.out.push(Entry { path, ext, target: t.0, public });
    }
    /// targets[i] <-> base[i]
    fn list(&mut self, targets: &[p3_recursion::Target], base: &Path, ext: bool, public: bool) -> Result<(), String> {
        let n = self.arr_len(base)?;
        if n != targets.len() {
            return Err(format!(
                "walker: {} has {} proof elements but {} targets",
                js::path_class(base),
                n,
                targets.len()
            ));
        }
        for (i, t) in targets.iter().enumerate() {
            self.one(*t, js::pi(base, i), ext, public);
        }
        Ok(())
    }
    /// Merkle cap: cap_targets[r][w] <-> the (r*DIGEST+w)-th numeric leaf under `base`
    fn cap(&mut self, c: &Comm, base: &Path) -> Result<(), String> {
        let node = js::get(self.b, base).ok_or_else(|| format!("walker: no {}", js::path_str(base)))?;
        let leaves = js::numeric_leaves(node);
        if leaves.len() != c.cap_targets.len() * DIGEST_ELEMS {
            return Err(format!(
                "walker: {} has {} words but {} cap targets",
                js::path_class(base),
                leaves.len(),
                c.cap_targets.len() * DIGEST_ELEMS
            ));
        }
        for (r, entry) in c.cap_targets.iter().enumerate() {
            for (w, t) in entry.iter().enumerate() {
                let mut p = base.clone();
                p.extend(leaves[r * DIGEST_ELEMS + w].clone());
                self.one(*t, p, false, true);
            }
        }
        Ok(())
    }
    fn opt_cap(&mut self, c: &Option<Comm>, base: &Path) -> Result<(), String> {
        match (c, self.is_null(base)) {
            (Some(c), false) => self.cap(c, base),
            (None, true) => Ok(()),
            (Some(_), true) => Err(format!("walker: targets for absent {}", js::path_class(base))),
            (None, false) => Err(format!("walker: no targets for present {}", js::path_class(base))),
        }
    }
    fn salts(&mut self, salts: &[Vec<p3_recursion::Target>], proof_path: &Path) -> Result<(), String> {
        if salts.is_empty() {
            return Ok(());
        }
        // hiding MMCS proof = (salts per matrix, siblings)
        let base = js::pi(proof_path, 0);
        let n = self.arr_len(&base)?;
        if n != salts.len() {
            return Err(format!("walker: {} salt rows vs {} target rows", n, salts.len()));
        }
        for (m, row) in salts.iter().enumerate() {
            self.list(row, &js::pi(&base, m), false, false)?;
        }
        Ok(())
    }
    fn fri(&mut self, t: &InnerFri, opening: &Path) -> Result<(), String> {
        use p3_recursion::pcs::MmcsProofTargets;
        let (fri, hiding) = fri_view(t);
        let base: Path = if ZK { js::pi(opening, 1) } else { opening.clone() };
        if let Some(h) = hiding {
            let rb = js::pi(opening, 0);
            if self.arr_len(&rb)? != h.rounds.len() {
                return Err("walker: hiding random rounds count".into());
            }
            for (r, round) in h.rounds.iter().enumerate() {
                let rp = js::pi(&rb, r);
                if self.arr_len(&rp)? != round.len() {
                    return Err("walker: hiding random matrices count".into());
                }
                for (m, mat) in round.iter().enumerate() {
                    let mp = js::pi(&rp, m);
                    if self.arr_len(&mp)? != mat.len() {
                        return Err("walker: hiding random points count".into());
                    }
                    for (pt, vals) in mat.iter().enumerate() {
                        self.list(vals, &js::pi(&mp, pt), true, false)?;
                    }
                }
            }
        }
        let cpc = js::pk(&base, "commit_phase_commits");
        if self.arr_len(&cpc)? != fri.commit_phase_commits.len() {
            return Err("walker: commit_phase_commits count".into());
        }
        for (i, c) in fri.commit_phase_commits.iter().enumerate() {
            self.cap(c, &js::pi(&cpc, i))?;
        }
        let cpw = js::pk(&base, "commit_pow_witnesses");
        let ws: Vec<_> = fri.commit_pow_witnesses.iter().map(|w| w.witness).collect();
        self.list(&ws, &cpw, false, true)?;
        let qps = js::pk(&base, "query_proofs");
        if self.arr_len(&qps)? != fri.query_proofs.len() {
            return Err("walker: query_proofs count".into());
        }
        for (q, qp) in fri.query_proofs.iter().enumerate() {
            let qb = js::pi(&qps, q);
            let ip = js::pk(&qb, "input_proof");
            if self.arr_len(&ip)? != qp.input_proof.len() {
                return Err("walker: input_proof count".into());
            }
            for (bi, bo) in qp.input_proof.iter().enumerate() {
                let bb = js::pi(&ip, bi);
                let ov = js::pk(&bb, "opened_values");
                if self.arr_len(&ov)? != bo.opened_values.len() {
                    return Err("walker: batch opened_values count".into());
                }
                for (m, row) in bo.opened_values.iter().enumerate() {
                    self.list(row, &js::pi(&ov, m), false, false)?;
                }
                self.salts(bo.opening_proof.salt_targets(), &js::pk(&bb, "opening_proof"))?;
            }
            let cpo = js::pk(&qb, "commit_phase_openings");
            if self.arr_len(&cpo)? != qp.commit_phase_openings.len() {
                return Err("walker: commit_phase_openings count".into());
            }
            for (s, step) in qp.commit_phase_openings.iter().enumerate() {
                let sb = js::pi(&cpo, s);
                let sv = js::pk(&sb, "sibling_values");
                let nsib = self.arr_len(&sv)?;
                if nsib * D != step.sibling_coefficients.len() {
                    return Err(format!(
                        "walker: {} siblings x D vs {} coefficient targets",
                        nsib,
                        step.sibling_coefficients.len()
                    ));
                }
                for j in 0..nsib {
                    let sp = js::pi(&sv, j);
                    let node = js::get(self.b, &sp).ok_or("walker: sibling missing")?;
                    let leaves = js::numeric_leaves(node);
                    if leaves.len() != D {
                        return Err("walker: sibling coefficient count".into());
                    }
                    for (c, leaf) in leaves.iter().enumerate() {
                        let mut p = sp.clone();
                        p.extend(leaf.clone());
                        self.one(step.sibling_coefficients[j * D + c], p, false, false);
                    }
                }
                self.salts(step.opening_proof.salt_targets(), &js::pk(&sb, "opening_proof"))?;
            }
        }
        self.list(&fri.final_poly, &js::pk(&base, "final_poly"), true, true)?;
        self.one(fri.pow_witness.witness, js::pk(&base, "query_pow_witness"), false, true);
        Ok(())
    }
}

fn walk_uni(
    vi: &p3_recursion::StarkVerifierInputsBuilder<SC, Comm, InnerFri>,
    b: &Value,
) -> Result<Vec<Entry>, String> {
    let mut w = Walk { b, out: vec![] };
    let root: Path = vec![];
    w.list(&vi.air_public_targets, &js::pk(&root, "pis"), false, true)?;
    let proof = js::pk(&root, "proof");
    let pt = &vi.proof_targets;
    let com = js::pk(&proof, "commitments");
    w.cap(&pt.commitments_targets.trace_targets, &js::pk(&com, "trace"))?;
    if pt.commitments_targets.permutation_targets.is_some() {
        return Err("walker: uni proof with permutation commitment targets".into());
    }
    w.cap(&pt.commitments_targets.quotient_chunks_targets, &js::pk(&com, "quotient_chunks"))?;
    w.opt_cap(&pt.commitments_targets.random_commit, &js::pk(&com, "random"))?;
    let ov = js::pk(&proof, "opened_values");
    let o = &pt.opened_values_targets;
    w.list(&o.trace_local_targets, &js::pk(&ov, "trace_local"), true, false)?;
    w.list(&o.trace_next_targets, &js::pk(&ov, "trace_next"), true, false)?;
    let empty = vec![];
    w.list(o.preprocessed_local_targets.as_ref().unwrap_or(&empty), &js::pk(&ov, "preprocessed_local"), true, false)?;
    w.list(o.preprocessed_next_targets.as_ref().unwrap_or(&empty), &js::pk(&ov, "preprocessed_next"), true, false)?;
    let qc = js::pk(&ov, "quotient_chunks");
    if w.arr_len(&qc)? != o.quotient_chunks_targets.len() {
        return Err("walker: quotient chunk count".into());
    }
    for (c, chunk) in o.quotient_chunks_targets.iter().enumerate() {
        w.list(chunk, &js::pi(&qc, c), true, false)?;
    }
    w.list(o.random_targets.as_ref().unwrap_or(&empty), &js::pk(&ov, "random"), true, false)?;
    w.fri(&pt.opening_proof, &js::pk(&proof, "opening_proof"))?;
    w.opt_cap(&vi.preprocessed_commit, &js::pk(&root, "prep"))?;
    Ok(w.out)
}

/// `proof` = JSON path of the `BatchProof`, `pis` = path of the per-instance public values.
fn walk_batch(
    vi: &p3_recursion::BatchStarkVerifierInputsBuilder<SC, Comm, InnerFri>,
    b: &Value,
    proof: &Path,
    pis: &Path,
) -> Result<Vec<Entry>, String> {
    let mut w = Walk { b, out: vec![] };
    if w.arr_len(pis)? != vi.air_public_targets.len() {
        return Err("walker: public value list count".into());
    }
    for (i, ts) in vi.air_public_targets.iter().enumerate() {
        w.list(ts, &js::pi(pis, i), false, true)?;
    }
    let pt = &vi.proof_targets;
    let com = js::pk(proof, "commitments");
    w.cap(&pt.commitments_targets.trace_targets, &js::pk(&com, "main"))?;
    w.opt_cap(&pt.commitments_targets.permutation_targets, &js::pk(&com, "permutation"))?;
    w.cap(&pt.commitments_targets.quotient_chunks_targets, &js::pk(&com, "quotient_chunks"))?;
    w.opt_cap(&pt.commitments_targets.random_commit, &js::pk(&com, "random"))?;

    // Per-instance opened values. The per-instance target structure is crate-private; the public
    // `flattened_opened_values_targets` concatenates the same targets group by group in instance
    // order, so the walker consumes each group with a running offset.
    let fl = &pt.flattened_opened_values_targets;
    let o = &fl.opened_values_no_lookups;
    let empty: Vec<p3_recursion::Target> = vec![];
    let pl = o.preprocessed_local_targets.as_ref().unwrap_or(&empty);
    let pn = o.preprocessed_next_targets.as_ref().unwrap_or(&empty);
    let rn = o.random_targets.as_ref().unwrap_or(&empty);
    let (mut tl, mut tn, mut ppl, mut ppn, mut qc, mut rr, mut ml, mut mn) = (0, 0, 0, 0, 0, 0, 0, 0);
    let insts = js::pk(&js::pk(proof, "opened_values"), "instances");
    let n_inst = w.arr_len(&insts)?;
    fn take<'t>(
        w: &mut Walk<'_>,
        all: &'t [p3_recursion::Target],
        off: &mut usize,
        base: &Path,
    ) -> Result<(), String> {
        let n = w.arr_len(base)?;
        if *off + n > all.len() {
            return Err(format!("walker: flattened group {} too short", js::path_class(base)));
        }
        let slice = all[*off..*off + n].to_vec();
        *off += n;
        w.list(&slice, base, true, false)
    }
    for i in 0..n_inst {
        let ib = js::pi(&insts, i);
        let bo = js::pk(&ib, "base_opened_values");
        take(&mut w, &o.trace_local_targets, &mut tl, &js::pk(&bo, "trace_local"))?;
        take(&mut w, &o.trace_next_targets, &mut tn, &js::pk(&bo, "trace_next"))?;
        take(&mut w, pl, &mut ppl, &js::pk(&bo, "preprocessed_local"))?;
        take(&mut w, pn, &mut ppn, &js::pk(&bo, "preprocessed_next"))?;
        let qcb = js::pk(&bo, "quotient_chunks");
        let nq = w.arr_len(&qcb)?;
        for c in 0..nq {
            let chunk = o
                .quotient_chunks_targets
                .get(qc)
                .ok_or("walker: flattened quotient chunks too short")?
                .clone();
            qc += 1;
            w.list(&chunk, &js::pi(&qcb, c), true, false)?;
        }
        take(&mut w, rn, &mut rr, &js::pk(&bo, "random"))?;
        take(&mut w, &fl.permutation_local_targets, &mut ml, &js::pk(&ib, "permutation_local"))?;
        take(&mut w, &fl.permutation_next_targets, &mut mn, &js::pk(&ib, "permutation_next"))?;
    }
    if tl != o.trace_local_targets.len()
        || tn != o.trace_next_targets.len()
        || ppl != pl.len()
        || ppn != pn.len()
        || qc != o.quotient_chunks_targets.len()
        || rr != rn.len()
        || ml != fl.permutation_local_targets.len()
        || mn != fl.permutation_next_targets.len()
    {
        return Err("walker: flattened opened-value targets not exhausted".into());
    }
    w.fri(&pt.opening_proof, &js::pk(proof, "opening_proof"))?;
    let lt = js::pk(proof, "lookup_terminals");
    if w.arr_len(&lt)? != pt.lookup_terminals.len() {
        return Err("walker: lookup terminal count".into());
    }
    for (i, t) in pt.lookup_terminals.iter().enumerate() {
        let p = js::pi(&lt, i);
        match (t, w.is_null(&p)) {
            (Some(t), false) => w.one(*t, p, true, true),
            (None, true) => {}
            _ => return Err("walker: lookup terminal presence".into()),
        }
    }
    Ok(w.out)
}

// ------------------------------------------------------------------------------------------
// uni-STARK
// ------------------------------------------------------------------------------------------

pub struct UniShape {
    air: TAir,
}

pub fn uni(air: TAir) -> Box<dyn Shape> {
    Box::new(UniShape { air })
}

struct UniParsed {
    proof: p3_uni_stark::Proof<SC>,
    pis: Vec<F>,
    prep: Option<ComV>,
    fri: FriSc,
}

fn parse_uni(b: &Value) -> Result<UniParsed, String> {
    Ok(UniParsed { proof: de(b, "proof")?, pis: de(b, "pis")?, prep: de(b, "prep")?, fri: de(b, "fri")? })
}

impl Shape for UniShape {
    fn name(&self) -> String {
        format!("uni/{}/{}", self.air.label(), CFG_NAME)
    }
    fn kind(&self) -> &'static str {
        "uni"
    }
    fn order(&self) -> u64 {
        F::ORDER_U64
    }
    fn canon(&self, repr: u64) -> Option<u64> {
        canon_repr(repr)
    }
    fn honest(&self) -> Result<Value, String> {
        let air = self.air;
        p3r_verif::util::guarded(move || {
            let fri = FriSc::testing();
            let config = make_config(&fri);
            let (trace, _prep, pis) = air.generate::<F>();
            let db = p3_util::log2_strict_usize(air.rows());
            let (pd, vk) = p3_uni_stark::setup_preprocessed(&config, &air, db).unzip();
            let proof = p3_uni_stark::prove_with_preprocessed(&config, &air, trace, &pis, pd.as_ref());
            json!({"proof": proof, "pis": pis, "prep": vk.map(|v| v.commitment), "fri": fri})
        })
        .map_err(|p| format!("honest prover panicked: {}", norm_site(&p)))
    }
    fn forged(&self) -> Vec<(String, Result<Value, String>)> {
        let air = self.air;
        let mut out = vec![];
        let n_pis = <TAir as p3_air::BaseAir<F>>::num_public_values(&air);
        let mut variants = vec!["trace-cell-first-row", "trace-cell-mid-row", "trace-cell-last-row"];
        if n_pis > 0 {
            variants.push("public-value");
        }
        for v in variants {
            let r = p3r_verif::util::guarded(move || {
                let fri = FriSc::testing();
                let config = make_config(&fri);
                let (mut trace, _prep, mut pis) = air.generate::<F>();
                let w = <TAir as p3_air::BaseAir<F>>::width(&air);
                let rows = air.rows();
                match v {
                    "trace-cell-first-row" => trace.values[0] += F::ONE,
                    "trace-cell-mid-row" => trace.values[w * (rows / 2) + (w - 1)] += F::ONE,
                    "trace-cell-last-row" => trace.values[w * (rows - 1) + (w - 1)] += F::ONE,
                    _ => {
                        let l = pis.len() - 1;
                        pis[l] += F::ONE;
                    }
                }
                let db = p3_util::log2_strict_usize(rows);
                let (pd, vk) = p3_uni_stark::setup_preprocessed(&config, &air, db).unzip();
                let proof = p3_uni_stark::prove_with_preprocessed(&config, &air, trace, &pis, pd.as_ref());
                json!({"proof": proof, "pis": pis, "prep": vk.map(|v| v.commitment), "fri": fri})
            })
            .map_err(|p| format!("forging prover panicked: {}", norm_site(&p)));
            out.push((v.to_string(), r));
        }
        out
    }
    fn ctx(&self) -> Result<Box<dyn Ctx>, String> {
        Ok(Box::new(UniCtx { air: self.air }))
    }
}

struct UniCtx {
    air: TAir,
}

struct UniCompiled {
    circuit: p3_circuit::Circuit<Challenge>,
    vi: p3_recursion::StarkVerifierInputsBuilder<SC, Comm, InnerFri>,
    op_ids: Vec<p3_circuit::NonPrimitiveOpId>,
    shape_bundle: Value,
}

impl Ctx for UniCtx {
    fn native(&self, b: &Value) -> Result<NativeV, String> {
        self.native_detail(b).map(|x| x.0)
    }

    fn native_detail(&self, b: &Value) -> Result<(NativeV, Option<String>), String> {
        let p = parse_uni(b)?;
        let air = self.air;
        let r = p3r_verif::util::guarded(|| {
            let config = make_config(&p.fri);
            let vk = p.prep.clone().map(|c| p3_uni_stark::PreprocessedVerifierKey::<SC> {
                width: <TAir as p3_air::BaseAir<F>>::preprocessed_width(&air),
                degree_bits: p3_util::log2_strict_usize(air.rows()) + usize::from(ZK),
                commitment: c,
            });
            p3_uni_stark::verify_with_preprocessed(&config, &air, &p.proof, &p.pis, vk.as_ref())
        });
        Ok(native_verdict(r))
    }

    fn compile<'a>(&'a self, b: &Value) -> Result<Result<Box<dyn Compiled + 'a>, CircV>, String> {
        let p = parse_uni(b)?;
        let air = self.air;
        let mut cb = new_builder();
        let vi = match guard_circ("StarkVerifierInputsBuilder::allocate", || {
            p3_recursion::StarkVerifierInputsBuilder::<SC, Comm, InnerFri>::allocate(
                &mut cb,
                &p.proof,
                p.prep.as_ref(),
                p.pis.len(),
            )
        }) {
            Ok(v) => v,
            Err(e) => return Ok(Err(e)),
        };
        let r = guard_circ("verify_p3_uni_proof_circuit", || {
            let config = make_config(&p.fri);
            p3_recursion::verify_p3_uni_proof_circuit::<TAir, SC, Comm, InputProofT, InnerFri, _, WIDTH, RATE>(
                &config,
                &air,
                &mut cb,
                &vi.proof_targets,
                &vi.air_public_targets,
                &vi.preprocessed_commit,
                &vparams(&p.fri),
                perm_cfg(),
            )
        });
        let op_ids = match r {
            Ok(Ok(ids)) => ids,
            Ok(Err(e)) => return Ok(Err(build_err(&e))),
            Err(e) => return Ok(Err(e)),
        };
        let circuit = match guard_circ("CircuitBuilder::build", || cb.build()) {
            Ok(Ok(c)) => c,
            Ok(Err(e)) => return Ok(Err(CircV::BuildErr(format!("build:{}", variant_of(&format!("{e:?}")))))),
            Err(e) => return Ok(Err(e)),
        };
        Ok(Ok(Box::new(UniCompiled { circuit, vi, op_ids, shape_bundle: b.clone() })))
    }

    fn extra_entry_points(&self, b: &Value) -> Result<Vec<(String, CircV)>, String> {
        next_layer_uni(self.air, b)
    }
    fn fri_arg_mutants(&self, b: &Value) -> Result<Vec<(String, CircV)>, String> {
        fri_arg_mutants(self.air, b)
    }
}

impl UniCompiled {
    fn pack_ef(&self, p: &UniParsed) -> Result<(Vec<Challenge>, Vec<Challenge>), CircV> {
        guard_circ("StarkVerifierInputsBuilder::pack_values", || self.vi.pack_values(&p.pis, &p.proof, &p.prep))
    }
}

impl Compiled for UniCompiled {
    fn fingerprint(&self) -> u64 {
        circuit_fingerprint(&self.circuit)
    }
    fn flat_lens(&self) -> (usize, usize) {
        (self.circuit.public_flat_len, self.circuit.private_flat_len)
    }
    fn public_rows(&self) -> Vec<u32> {
        self.circuit.public_rows.iter().map(|w| w.0).collect()
    }
    fn private_rows(&self) -> Vec<u32> {
        self.circuit.private_input_rows.iter().map(|w| w.0).collect()
    }
    fn widx(&self, target: u32) -> Option<u32> {
        self.circuit.expr_to_widx.get(&p3_circuit::ExprId(target)).map(|w| w.0)
    }
    fn pack(&self, b: &Value) -> Result<(Vec<Vec<u64>>, Vec<Vec<u64>>), String> {
        let p = parse_uni(b)?;
        let (pu, pr) = self.pack_ef(&p).map_err(|e| e.label())?;
        Ok((pu.iter().map(ef_coeffs).collect(), pr.iter().map(ef_coeffs).collect()))
    }
    fn run(&self, b: &Value) -> Result<CircV, String> {
        let p = parse_uni(b)?;
        let (pu, pr) = match self.pack_ef(&p) {
            Ok(x) => x,
            Err(e) => return Ok(e),
        };
        Ok(run_inner(&self.circuit, &self.op_ids, &p.proof.opening_proof, &pu, &pr, &[]).verdict)
    }
    fn run_packed(&self, b: &Value, pubs: &[Vec<u64>], privs: &[Vec<u64>], read: &[u32]) -> Result<RunOut, String> {
        let p = parse_uni(b)?;
        Ok(run_inner(&self.circuit, &self.op_ids, &p.proof.opening_proof, &to_ef_vec(pubs)?, &to_ef_vec(privs)?, read))
    }
    fn entries(&self) -> Result<Vec<Entry>, String> {
        walk_uni(&self.vi, &self.shape_bundle)
    }
    fn tail_commit(&self) -> Option<Path> {
        None
    }
}

// ------------------------------------------------------------------------------------------
// batch-STARK over the small AIRs
// ------------------------------------------------------------------------------------------

#[derive(serde::Serialize, serde::Deserialize)]
struct MetaJ {
    matrix_index: usize,
    width: usize,
    degree_bits: usize,
}

#[derive(serde::Serialize, serde::Deserialize)]
#[serde(bound = "")]
struct CommonJ {
    commitment: ComV,
    instances: Vec<Option<MetaJ>>,
    matrix_to_instance: Vec<usize>,
}

fn common_to_json(c: &p3_batch_stark::CommonData<SC>) -> Value {
    match &c.preprocessed {
        None => Value::Null,
        Some(g) => serde_json::to_value(CommonJ {
            commitment: g.commitment.clone(),
            instances: g
                .instances
                .iter()
                .map(|m| {
                    m.as_ref().map(|m| MetaJ { matrix_index: m.matrix_index, width: m.width, degree_bits: m.degree_bits })
                })
                .collect(),
            matrix_to_instance: g.matrix_to_instance.clone(),
        })
        .unwrap(),
    }
}

fn common_from(c: Option<CommonJ>, lookups: Vec<p3_lookup::Lookups<F>>) -> p3_batch_stark::CommonData<SC> {
    p3_batch_stark::CommonData::new(
        c.map(|c| p3_batch_stark::common::GlobalPreprocessed {
            commitment: c.commitment,
            instances: c
                .instances
                .into_iter()
                .map(|m| {
                    m.map(|m| p3_batch_stark::common::PreprocessedInstanceMeta {
                        matrix_index: m.matrix_index,
                        width: m.width,
                        degree_bits: m.degree_bits,
                    })
                })
                .collect(),
            matrix_to_instance: c.matrix_to_instance,
        }),
        lookups,
    )
}

pub struct BatchShape {
    airs: Vec<TAir>,
}

pub fn batch(airs: Vec<TAir>) -> Box<dyn Shape> {
    Box::new(BatchShape { airs })
}

struct BatchParsed {
    proof: p3_batch_stark::BatchProof<SC>,
    pis: Vec<Vec<F>>,
    common: p3_batch_stark::CommonData<SC>,
    fri: FriSc,
}

impl Shape for BatchShape {
    fn name(&self) -> String {
        let l: Vec<String> = self.airs.iter().map(|a| a.label()).collect();
        format!("batch/{}/{}", l.join("+"), CFG_NAME)
    }
    fn kind(&self) -> &'static str {
        "batch"
    }
    fn order(&self) -> u64 {
        F::ORDER_U64
    }
    fn canon(&self, repr: u64) -> Option<u64> {
        canon_repr(repr)
    }
    fn honest(&self) -> Result<Value, String> {
        let airs = self.airs.clone();
        p3r_verif::util::guarded(move || {
            let fri = FriSc::testing();
            let config = make_config(&fri);
            let gens: Vec<_> = airs.iter().map(|a| a.generate::<F>()).collect();
            let instances: Vec<_> = airs
                .iter()
                .zip(gens.iter())
                .map(|(air, g)| p3_batch_stark::StarkInstance { air, trace: &g.0, public_values: g.2.clone() })
                .collect();
            let pd = p3_batch_stark::ProverData::from_instances(&config, &instances);
            let proof = p3_batch_stark::prove_batch(&config, &instances, &pd);
            let pis: Vec<Vec<F>> = gens.iter().map(|g| g.2.clone()).collect();
            json!({"proof": proof, "pis": pis, "common": common_to_json(&pd.common), "fri": fri})
        })
        .map_err(|p| format!("honest prover panicked: {}", norm_site(&p)))
    }
    fn forged(&self) -> Vec<(String, Result<Value, String>)> {
        let mut out = vec![];
        for k in 0..self.airs.len() {
            for what in ["trace-cell", "public-value"] {
                let airs = self.airs.clone();
                let n_pis = <TAir as p3_air::BaseAir<F>>::num_public_values(&airs[k]);
                if what == "public-value" && n_pis == 0 {
                    continue;
                }
                let r = p3r_verif::util::guarded(move || {
                    let fri = FriSc::testing();
                    let config = make_config(&fri);
                    let mut gens: Vec<_> = airs.iter().map(|a| a.generate::<F>()).collect();
                    if what == "trace-cell" {
                        let w = <TAir as p3_air::BaseAir<F>>::width(&airs[k]);
                        let rows = airs[k].rows();
                        gens[k].0.values[w * (rows / 2) + (w - 1)] += F::ONE;
                    } else {
                        let l = gens[k].2.len() - 1;
                        gens[k].2[l] += F::ONE;
                    }
                    let instances: Vec<_> = airs
                        .iter()
                        .zip(gens.iter())
                        .map(|(air, g)| p3_batch_stark::StarkInstance { air, trace: &g.0, public_values: g.2.clone() })
                        .collect();
                    let pd = p3_batch_stark::ProverData::from_instances(&config, &instances);
                    let proof = p3_batch_stark::prove_batch(&config, &instances, &pd);
                    let pis: Vec<Vec<F>> = gens.iter().map(|g| g.2.clone()).collect();
                    json!({"proof": proof, "pis": pis, "common": common_to_json(&pd.common), "fri": fri})
                })
                .map_err(|p| format!("forging prover panicked: {}", norm_site(&p)));
                out.push((format!("{what}@instance{k}"), r));
            }
        }
        out
    }
    fn ctx(&self) -> Result<Box<dyn Ctx>, String> {
        Ok(Box::new(BatchCtx { airs: self.airs.clone() }))
    }
}

/// Lookup contexts of a list of kit AIRs as key generation derives them (from the AIRs and their
/// deterministic traces; independent of any proof).
pub(crate) fn kit_air_lookups(airs: &[TAir]) -> Vec<p3_lookup::Lookups<F>> {
    if !airs.iter().any(|a| matches!(a, TAir::Lk { .. })) {
        return vec![p3_lookup::Lookups::<F>::default(); airs.len()];
    }
    let fri = FriSc::testing();
    let config = make_config(&fri);
    let gens: Vec<_> = airs.iter().map(|a| a.generate::<F>()).collect();
    let instances: Vec<_> = airs
        .iter()
        .zip(gens.iter())
        .map(|(air, g)| p3_batch_stark::StarkInstance { air, trace: &g.0, public_values: g.2.clone() })
        .collect();
    p3_batch_stark::ProverData::from_instances(&config, &instances).common.lookups.clone()
}

struct BatchCtx {
    airs: Vec<TAir>,
}

impl BatchCtx {
    fn parse(&self, b: &Value) -> Result<BatchParsed, String> {
        let c: Option<CommonJ> = de(b, "common")?;
        // verifier-side data derived from the AIRs alone (never from the bundle): the lookup
        // contexts of each AIR (empty for the lookup-free ones)
        let lookups = kit_air_lookups(&self.airs);
        Ok(BatchParsed { proof: de(b, "proof")?, pis: de(b, "pis")?, common: common_from(c, lookups), fri: de(b, "fri")? })
    }
}

struct BatchCompiled {
    circuit: p3_circuit::Circuit<Challenge>,
    vi: p3_recursion::BatchStarkVerifierInputsBuilder<SC, Comm, InnerFri>,
    op_ids: Vec<p3_circuit::NonPrimitiveOpId>,
    shape_bundle: Value,
    /// Some(ctx) for plain batch, None for circuit-prover batch
    airs: Option<Vec<TAir>>,
    circ: Option<CircCtxData>,
}

impl Ctx for BatchCtx {
    fn native(&self, b: &Value) -> Result<NativeV, String> {
        self.native_detail(b).map(|x| x.0)
    }

    fn native_detail(&self, b: &Value) -> Result<(NativeV, Option<String>), String> {
        let p = self.parse(b)?;
        let airs = self.airs.clone();
        let r = p3r_verif::util::guarded(|| {
            let config = make_config(&p.fri);
            p3_batch_stark::verify_batch(&config, &airs, &p.proof, &p.pis, &p.common)
        });
        Ok(native_verdict(r))
    }

    fn compile<'a>(&'a self, b: &Value) -> Result<Result<Box<dyn Compiled + 'a>, CircV>, String> {
        let p = self.parse(b)?;
        let counts: Vec<usize> = p.pis.iter().map(|v| v.len()).collect();
        if counts.len() != p.proof.opened_values.instances.len() {
            // documented `# Panics` precondition of BatchStarkVerifierInputsBuilder::allocate
            return Ok(Err(CircV::Precond("public value list count != instance count".into())));
        }
        let mut cb = new_builder();
        let vi = match guard_circ("BatchStarkVerifierInputsBuilder::allocate", || {
            p3_recursion::BatchStarkVerifierInputsBuilder::<SC, Comm, InnerFri>::allocate(
                &mut cb, &p.proof, &p.common, &counts,
            )
        }) {
            Ok(v) => v,
            Err(e) => return Ok(Err(e)),
        };
        let airs = self.airs.clone();
        let r = guard_circ("verify_batch_circuit", || {
            let config = make_config(&p.fri);
            p3_recursion::verify_batch_circuit::<TAir, SC, Comm, InputProofT, InnerFri, LG, _, WIDTH, RATE>(
                &config,
                &airs,
                &mut cb,
                &vi.proof_targets,
                &vi.air_public_targets,
                &vparams(&p.fri),
                &vi.common_data,
                &LG::new(),
                perm_cfg(),
            )
        });
        let op_ids = match r {
            Ok(Ok(ids)) => ids,
            Ok(Err(e)) => return Ok(Err(build_err(&e))),
            Err(e) => return Ok(Err(e)),
        };
        let circuit = match guard_circ("CircuitBuilder::build", || cb.build()) {
            Ok(Ok(c)) => c,
            Ok(Err(e)) => return Ok(Err(CircV::BuildErr(format!("build:{}", variant_of(&format!("{e:?}")))))),
            Err(e) => return Ok(Err(e)),
        };
        Ok(Ok(Box::new(BatchCompiled {
            circuit,
            vi,
            op_ids,
            shape_bundle: b.clone(),
            airs: Some(self.airs.clone()),
            circ: None,
        })))
    }

    fn extra_entry_points(&self, _b: &Value) -> Result<Vec<(String, CircV)>, String> {
        Ok(vec![])
    }
}

impl BatchCompiled {
    fn parse(&self, b: &Value) -> Result<BatchParsed, String> {
        match (&self.airs, &self.circ) {
            (Some(airs), _) => BatchCtx { airs: airs.clone() }.parse(b),
            (None, Some(c)) => {
                let bsp = parse_circ(b, c)?;
                let pis: Vec<Vec<F>> = de(b, "pis")?;
                let fri: FriSc = de(b, "fri")?;
                let common = clone_common(&bsp.stark_common);
                Ok(BatchParsed { proof: bsp.proof, pis, common, fri })
            }
            _ => Err("no context".into()),
        }
    }
    fn pack_ef(&self, p: &BatchParsed) -> Result<(Vec<Challenge>, Vec<Challenge>), CircV> {
        guard_circ("BatchStarkVerifierInputsBuilder::pack_values", || {
            self.vi.pack_values(&p.pis, &p.proof, &p.common)
        })
    }
}

impl Compiled for BatchCompiled {
    fn fingerprint(&self) -> u64 {
        circuit_fingerprint(&self.circuit)
    }
    fn flat_lens(&self) -> (usize, usize) {
        (self.circuit.public_flat_len, self.circuit.private_flat_len)
    }
    fn public_rows(&self) -> Vec<u32> {
        self.circuit.public_rows.iter().map(|w| w.0).collect()
    }
    fn private_rows(&self) -> Vec<u32> {
        self.circuit.private_input_rows.iter().map(|w| w.0).collect()
    }
    fn widx(&self, target: u32) -> Option<u32> {
        self.circuit.expr_to_widx.get(&p3_circuit::ExprId(target)).map(|w| w.0)
    }
    fn pack(&self, b: &Value) -> Result<(Vec<Vec<u64>>, Vec<Vec<u64>>), String> {
        let p = self.parse(b)?;
        let (pu, pr) = self.pack_ef(&p).map_err(|e| e.label())?;
        Ok((pu.iter().map(ef_coeffs).collect(), pr.iter().map(ef_coeffs).collect()))
    }
    fn run(&self, b: &Value) -> Result<CircV, String> {
        let p = self.parse(b)?;
        let (pu, pr) = match self.pack_ef(&p) {
            Ok(x) => x,
            Err(e) => return Ok(e),
        };
        Ok(run_inner(&self.circuit, &self.op_ids, &p.proof.opening_proof, &pu, &pr, &[]).verdict)
    }
    fn run_packed(&self, b: &Value, pubs: &[Vec<u64>], privs: &[Vec<u64>], read: &[u32]) -> Result<RunOut, String> {
        let p = self.parse(b)?;
        Ok(run_inner(&self.circuit, &self.op_ids, &p.proof.opening_proof, &to_ef_vec(pubs)?, &to_ef_vec(privs)?, read))
    }
    fn entries(&self) -> Result<Vec<Entry>, String> {
        let root: Path = vec![];
        if self.airs.is_some() {
            walk_batch(&self.vi, &self.shape_bundle, &js::pk(&root, "proof"), &js::pk(&root, "pis"))
        } else {
            walk_batch(
                &self.vi,
                &self.shape_bundle,
                &js::pk(&js::pk(&root, "proof"), "proof"),
                &js::pk(&root, "pis"),
            )
        }
    }
    fn tail_commit(&self) -> Option<Path> {
        let root: Path = vec![];
        let p = if self.airs.is_some() {
            js::pk(&js::pk(&root, "common"), "commitment")
        } else {
            js::pk(&js::pk(&js::pk(&root, "proof"), "stark_common"), "commitment")
        };
        js::get(&self.shape_bundle, &p).filter(|v| !v.is_null()).map(|_| p)
    }
}

// ------------------------------------------------------------------------------------------
// circuit-prover batch proof of a tiny circuit (primitive tables, with the witness-bus lookups)
// ------------------------------------------------------------------------------------------

type Bsp = p3_circuit_prover::batch_stark_prover::BatchStarkProof<SC>;

pub struct CircShape {
    n: usize,
}

pub fn circ(n: usize) -> Box<dyn Shape> {
    Box::new(CircShape { n })
}

#[derive(Clone)]
struct CircCtxData {
    lookups: Vec<p3_lookup::Lookups<F>>,
}

fn clone_common(c: &p3_batch_stark::CommonData<SC>) -> p3_batch_stark::CommonData<SC> {
    p3_batch_stark::CommonData::new(
        c.preprocessed.as_ref().map(|g| p3_batch_stark::common::GlobalPreprocessed {
            commitment: g.commitment.clone(),
            instances: g
                .instances
                .iter()
                .map(|m| {
                    m.as_ref().map(|m| p3_batch_stark::common::PreprocessedInstanceMeta {
                        matrix_index: m.matrix_index,
                        width: m.width,
                        degree_bits: m.degree_bits,
                    })
                })
                .collect(),
            matrix_to_instance: g.matrix_to_instance.clone(),
        }),
        c.lookups.clone(),
    )
}

fn tiny_circuit(n: usize) -> (p3_circuit::Circuit<F>, Vec<F>) {
    let mut builder = p3_circuit::CircuitBuilder::<F>::new();
    let x = builder.public_input();
    let a = builder.public_input();
    let b = builder.public_input();
    let expected = builder.public_input();
    let mut y = builder.mul(a, x);
    y = builder.add(b, y);
    for _ in 0..n {
        y = builder.mul(a, y);
        y = builder.add(b, y);
    }
    builder.connect(y, expected);
    let (xa, aa, ba) = (F::from_u64(7), F::from_u64(3), F::from_u64(5));
    let mut yv = aa * xa + ba;
    for _ in 0..n {
        yv = aa * yv + ba;
    }
    (builder.build().expect("tiny circuit"), vec![xa, aa, ba, yv])
}

fn circ_prove(n: usize, fri: &FriSc) -> Result<Bsp, String> {
    circ_prove_forged(n, fri, "")
}

/// `forge`: "" honest | "alu-out" | "public-value" | "const-multiplicity" | "alu-multiplicity"
fn circ_prove_forged(n: usize, fri: &FriSc, forge: &str) -> Result<Bsp, String> {
    use p3_circuit_prover::common::get_airs_and_degrees_with_prep;
    let packing = p3_circuit_prover::TablePacking::new(4, 4);
    let (circuit, publics) = tiny_circuit(n);
    let (ad, mut prim, nonprim) = get_airs_and_degrees_with_prep::<SC, F, 1>(
        &circuit,
        &packing,
        &[],
        &[],
        p3_circuit_prover::ConstraintProfile::Standard,
    )
    .map_err(|e| format!("{e:?}"))?;
    let (airs, degs): (Vec<_>, Vec<usize>) = ad.into_iter().unzip();
    let mut runner = circuit.runner();
    runner.set_public_inputs(&publics).map_err(|e| format!("{e:?}"))?;
    let mut traces = runner.run().map_err(|e| format!("{e:?}"))?;
    match forge {
        "alu-out" => traces.alu_trace.values[1][3] += F::ONE,
        "public-value" => traces.public_trace.values[0] += F::ONE,
        "const-multiplicity" => prim[p3_circuit::ops::PrimitiveOpType::Const as usize][0] += F::ONE,
        "alu-multiplicity" => {
            let c = &mut prim[p3_circuit::ops::PrimitiveOpType::Alu as usize];
            let l = c.len() - 1;
            c[l] += F::ONE;
        }
        _ => {}
    }
    let config = make_config(fri);
    let ext_degs: Vec<usize> = degs.iter().map(|d| d + usize::from(ZK)).collect();
    let pd = p3_batch_stark::ProverData::from_airs_and_degrees(&config, &airs, &ext_degs);
    let cpd = p3_circuit_prover::CircuitProverData::new(pd, prim, nonprim);
    let prover = p3_circuit_prover::BatchStarkProver::new(make_config(fri)).with_table_packing(packing);
    prover.prove_all_tables(&traces, &cpd).map_err(|e| format!("{e:?}"))
}

fn parse_circ(b: &Value, c: &CircCtxData) -> Result<Bsp, String> {
    let mut bsp: Bsp = de(b, "proof")?;
    // `lookups` are verifier-side data that the serialized form deliberately omits
    bsp.stark_common.lookups = c.lookups.clone();
    Ok(bsp)
}

impl Shape for CircShape {
    fn name(&self) -> String {
        format!("circuit-batch/arith-n{}/{}", self.n, CFG_NAME)
    }
    fn kind(&self) -> &'static str {
        "circuit-batch"
    }
    fn order(&self) -> u64 {
        F::ORDER_U64
    }
    fn canon(&self, repr: u64) -> Option<u64> {
        canon_repr(repr)
    }
    fn honest(&self) -> Result<Value, String> {
        let n = self.n;
        p3r_verif::util::guarded(move || -> Result<Value, String> {
            let fri = FriSc::testing();
            let bsp = circ_prove(n, &fri)?;
            let n_inst = bsp.proof.opened_values.instances.len();
            let pis: Vec<Vec<F>> = vec![vec![]; n_inst];
            Ok(json!({"proof": bsp, "pis": pis, "fri": fri}))
        })
        .map_err(|p| format!("honest prover panicked: {}", norm_site(&p)))?
    }
    fn forged(&self) -> Vec<(String, Result<Value, String>)> {
        let n = self.n;
        ["alu-out", "public-value", "const-multiplicity", "alu-multiplicity"]
            .iter()
            .map(|f| {
                let r = p3r_verif::util::guarded(move || -> Result<Value, String> {
                    let fri = FriSc::testing();
                    let bsp = circ_prove_forged(n, &fri, f)?;
                    let n_inst = bsp.proof.opened_values.instances.len();
                    let pis: Vec<Vec<F>> = vec![vec![]; n_inst];
                    Ok(json!({"proof": bsp, "pis": pis, "fri": fri}))
                })
                .map_err(|p| format!("forging prover panicked: {}", norm_site(&p)))
                .and_then(|x| x);
                (f.to_string(), r)
            })
            .collect()
    }
    fn ctx(&self) -> Result<Box<dyn Ctx>, String> {
        let n = self.n;
        let bsp = p3r_verif::util::guarded(move || circ_prove(n, &FriSc::testing()))
            .map_err(|p| format!("honest prover panicked: {}", norm_site(&p)))??;
        Ok(Box::new(CircCtx { data: CircCtxData { lookups: bsp.stark_common.lookups.clone() } }))
    }
}

struct CircCtx {
    data: CircCtxData,
}

impl Ctx for CircCtx {
    fn native(&self, b: &Value) -> Result<NativeV, String> {
        self.native_detail(b).map(|x| x.0)
    }

    fn native_detail(&self, b: &Value) -> Result<(NativeV, Option<String>), String> {
        let bsp = parse_circ(b, &self.data)?;
        let fri: FriSc = de(b, "fri")?;
        let r = p3r_verif::util::guarded(|| {
            let prover = p3_circuit_prover::BatchStarkProver::new(make_config(&fri))
                .with_table_packing(bsp.table_packing.clone());
            prover.verify_all_tables::<F>(&bsp)
        });
        Ok(native_verdict(r))
    }

    fn compile<'a>(&'a self, b: &Value) -> Result<Result<Box<dyn Compiled + 'a>, CircV>, String> {
        let bsp = parse_circ(b, &self.data)?;
        let fri: FriSc = de(b, "fri")?;
        let mut cb = new_builder();
        let r = guard_circ("verify_p3_batch_proof_circuit", || {
            let config = make_config(&fri);
            p3_recursion::verifier::verify_p3_batch_proof_circuit::<SC, Comm, InputProofT, InnerFri, LG, _, WIDTH, RATE, 1>(
                &config,
                &mut cb,
                &bsp,
                &vparams(&fri),
                &bsp.stark_common,
                &LG::new(),
                perm_cfg(),
                &[],
            )
        });
        let (vi, op_ids) = match r {
            Ok(Ok(x)) => x,
            Ok(Err(e)) => return Ok(Err(build_err(&e))),
            Err(e) => return Ok(Err(e)),
        };
        let circuit = match guard_circ("CircuitBuilder::build", || cb.build()) {
            Ok(Ok(c)) => c,
            Ok(Err(e)) => return Ok(Err(CircV::BuildErr(format!("build:{}", variant_of(&format!("{e:?}")))))),
            Err(e) => return Ok(Err(e)),
        };
        Ok(Ok(Box::new(BatchCompiled {
            circuit,
            vi,
            op_ids,
            shape_bundle: b.clone(),
            airs: None,
            circ: Some(self.data.clone()),
        })))
    }

    fn extra_entry_points(&self, b: &Value) -> Result<Vec<(String, CircV)>, String> {
        let bsp = parse_circ(b, &self.data)?;
        let v = match guard_circ("BatchStarkProof::validate", || bsp.validate()) {
            Ok(Ok(())) => CircV::Accept,
            Ok(Err(e)) => CircV::BuildErr(variant_of(&format!("{e:?}"))),
            Err(e) => e,
        };
        let mut out = vec![("BatchStarkProof::validate".to_string(), v)];
        out.extend(next_layer_circ(b, &self.data.lookups)?);
        Ok(out)
    }
    fn foreign_key_probe(&self, b: &Value) -> Result<Vec<(String, CircV)>, String> {
        next_layer_circ_foreign_key(b, &self.data.lookups)
    }
}
