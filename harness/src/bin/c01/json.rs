//! M1 — serde-tree mutator: paths, numeric leaves, value and structural mutations.

use serde_json::Value;

#[derive(Clone, Debug, PartialEq, Eq, Hash, serde::Serialize, serde::Deserialize)]
pub enum Seg {
    K(String),
    I(usize),
}

pub type Path = Vec<Seg>;

pub fn path_str(p: &Path) -> String {
    let mut s = String::new();
    for seg in p {
        match seg {
            Seg::K(k) => {
                if !s.is_empty() {
                    s.push('.');
                }
                s.push_str(k);
            }
            Seg::I(i) => s.push_str(&format!("[{i}]")),
        }
    }
    s
}

/// JSON path with indices stripped: the unit of signatures.
pub fn path_class(p: &Path) -> String {
    let mut s = String::new();
    for seg in p {
        match seg {
            Seg::K(k) => {
                if !s.is_empty() {
                    s.push('.');
                }
                s.push_str(k);
            }
            Seg::I(_) => {
                if !s.ends_with("[]") {
                    s.push_str("[]");
                }
            }
        }
    }
    s
}

pub fn parse_path(s: &str) -> Path {
    let mut out = vec![];
    for part in s.split('.') {
        let mut rest = part;
        if let Some(b) = rest.find('[') {
            if b > 0 {
                out.push(Seg::K(rest[..b].to_string()));
            }
            rest = &rest[b..];
            while let Some(e) = rest.find(']') {
                out.push(Seg::I(rest[1..e].parse().unwrap()));
                rest = &rest[e + 1..];
            }
        } else if !rest.is_empty() {
            out.push(Seg::K(rest.to_string()));
        }
    }
    out
}

pub fn pk(p: &Path, k: &str) -> Path {
    let mut q = p.clone();
    q.push(Seg::K(k.to_string()));
    q
}
pub fn pi(p: &Path, i: usize) -> Path {
    let mut q = p.clone();
    q.push(Seg::I(i));
    q
}

pub fn get<'a>(v: &'a Value, p: &[Seg]) -> Option<&'a Value> {
    let mut cur = v;
    for seg in p {
        cur = match seg {
            Seg::K(k) => cur.get(k.as_str())?,
            Seg::I(i) => cur.get(*i)?,
        };
    }
    Some(cur)
}

pub fn get_mut<'a>(v: &'a mut Value, p: &[Seg]) -> Option<&'a mut Value> {
    let mut cur = v;
    for seg in p {
        cur = match seg {
            Seg::K(k) => cur.get_mut(k.as_str())?,
            Seg::I(i) => cur.get_mut(*i)?,
        };
    }
    Some(cur)
}

pub fn set(v: &mut Value, p: &[Seg], new: Value) -> bool {
    match get_mut(v, p) {
        Some(slot) => {
            *slot = new;
            true
        }
        None => false,
    }
}

/// All numeric leaves in document order.
pub fn numeric_leaves(v: &Value) -> Vec<Path> {
    fn rec(v: &Value, cur: &mut Path, out: &mut Vec<Path>) {
        match v {
            Value::Number(_) => out.push(cur.clone()),
            Value::Array(a) => {
                for (i, x) in a.iter().enumerate() {
                    cur.push(Seg::I(i));
                    rec(x, cur, out);
                    cur.pop();
                }
            }
            Value::Object(o) => {
                for (k, x) in o.iter() {
                    cur.push(Seg::K(k.clone()));
                    rec(x, cur, out);
                    cur.pop();
                }
            }
            _ => {}
        }
    }
    let mut out = vec![];
    rec(v, &mut vec![], &mut out);
    out
}

/// First numeric leaf under a node (the degree-0 coefficient of an extension element).
pub fn first_leaf_under(v: &Value, p: &Path) -> Option<Path> {
    let node = get(v, p)?;
    let sub = numeric_leaves(node);
    let first = sub.into_iter().next()?;
    let mut q = p.clone();
    q.extend(first);
    Some(q)
}

/// Numeric leaves under a node as u64 (coefficients of an extension element).
pub fn coeffs_under(v: &Value, p: &Path) -> Option<Vec<u64>> {
    let node = get(v, p)?;
    let mut out = vec![];
    for q in numeric_leaves(node) {
        out.push(get(node, &q)?.as_u64()?);
    }
    Some(out)
}

/// Keys whose numeric descendants are integers of the proof *shape* (not field elements).
pub const INT_KEYS: &[&str] = &[
    "degree_bits",
    "log_arity",
    "matrix_index",
    "width",
    "matrix_to_instance",
    "rows",
    "ext_degree",
    "table_packing",
    "fri",
    "lanes",
    "op_type",
];

pub fn is_int_leaf(p: &Path) -> bool {
    p.iter().any(|s| matches!(s, Seg::K(k) if INT_KEYS.contains(&k.as_str())))
}

/// Every array node / option node / integer, for structural mutation.
#[derive(Clone, Debug, serde::Serialize, serde::Deserialize)]
pub enum SMut {
    DropLast,
    DropFirst,
    DupLast,
    Empty,
    Swap(usize, usize),
    ToNull,
    /// replace `null` by a clone of the node at the donor path
    FromDonor(String),
    SetInt(u64),
    /// replace the node by a literal value
    SetValue(Value),
}

impl SMut {
    pub fn label(&self) -> String {
        match self {
            SMut::DropLast => "drop-last".into(),
            SMut::DropFirst => "drop-first".into(),
            SMut::DupLast => "dup-last".into(),
            SMut::Empty => "empty".into(),
            SMut::Swap(..) => "swap".into(),
            SMut::ToNull => "to-none".into(),
            SMut::FromDonor(_) => "to-some".into(),
            SMut::SetInt(_) => "set-int".into(),
            SMut::SetValue(_) => "to-some".into(),
        }
    }
}

pub fn all_nodes(v: &Value) -> Vec<Path> {
    fn rec(v: &Value, cur: &mut Path, out: &mut Vec<Path>) {
        out.push(cur.clone());
        match v {
            Value::Array(a) => {
                for (i, x) in a.iter().enumerate() {
                    cur.push(Seg::I(i));
                    rec(x, cur, out);
                    cur.pop();
                }
            }
            Value::Object(o) => {
                for (k, x) in o.iter() {
                    cur.push(Seg::K(k.clone()));
                    rec(x, cur, out);
                    cur.pop();
                }
            }
            _ => {}
        }
    }
    let mut out = vec![];
    rec(v, &mut vec![], &mut out);
    out
}

/// Apply a structural mutation; `None` if not applicable (e.g. identical result).
pub fn apply_smut(doc: &Value, p: &Path, m: &SMut) -> Option<Value> {
    let mut d = doc.clone();
    let donor = match m {
        SMut::FromDonor(dp) => Some(get(doc, &parse_path(dp))?.clone()),
        _ => None,
    };
    let node = get_mut(&mut d, p)?;
    match m {
        SMut::DropLast => {
            let a = node.as_array_mut()?;
            a.pop()?;
        }
        SMut::DropFirst => {
            let a = node.as_array_mut()?;
            if a.is_empty() {
                return None;
            }
            a.remove(0);
        }
        SMut::DupLast => {
            let a = node.as_array_mut()?;
            let l = a.last()?.clone();
            a.push(l);
        }
        SMut::Empty => {
            let a = node.as_array_mut()?;
            if a.is_empty() {
                return None;
            }
            a.clear();
        }
        SMut::Swap(i, j) => {
            let a = node.as_array_mut()?;
            if *i >= a.len() || *j >= a.len() || a[*i] == a[*j] {
                return None;
            }
            a.swap(*i, *j);
        }
        SMut::ToNull => {
            if node.is_null() {
                return None;
            }
            *node = Value::Null;
        }
        SMut::FromDonor(_) => {
            if !node.is_null() {
                return None;
            }
            *node = donor?;
        }
        SMut::SetInt(x) => {
            if node.as_u64() == Some(*x) {
                return None;
            }
            *node = Value::from(*x);
        }
        SMut::SetValue(v) => {
            if node == v {
                return None;
            }
            *node = v.clone();
        }
    }
    Some(d)
}
