//! Shared kit of the C01 / C14 / C15 monitors: proof sources (small AIRs x configurations),
//! type-erased access to "prove honestly / verify natively / build the verification circuit /
//! pack + run", the hand-written target walkers of C14 and the M1 serde-tree mutator.
//!
//! Everything that touches a concrete configuration lives in `cfg_body.rs`, which is `include!`d
//! once per configuration module below (so that the code is type-checked against concrete types
//! and const generics, exactly as the repository's integration tests instantiate it).

#![allow(dead_code, clippy::type_complexity, clippy::too_many_arguments)]

#[path = "airs.rs"]
pub mod airs;
#[path = "json.rs"]
pub mod json;

use serde_json::Value;

pub use json::Path;

/// FRI scalar parameters (the bundle carries them so that C15 can mutate them on both sides).
#[derive(Clone, Copy, Debug, serde::Serialize, serde::Deserialize)]
pub struct FriSc {
    pub log_blowup: usize,
    pub log_final_poly_len: usize,
    pub commit_pow_bits: usize,
    pub query_pow_bits: usize,
}

impl FriSc {
    /// `FriParameters::new_testing(_, 0)` scalars.
    pub fn testing() -> Self {
        Self { log_blowup: 2, log_final_poly_len: 0, commit_pow_bits: 1, query_pow_bits: 1 }
    }
}
pub const FRI_NUM_QUERIES: usize = 2;
pub const FRI_MAX_LOG_ARITY: usize = 1;

#[derive(Clone, Debug, PartialEq)]
pub enum NativeV {
    Accept,
    Reject(String),
    /// panic inside the native verifier (counts as reject, recorded)
    Panic(String),
}
impl NativeV {
    pub fn accepts(&self) -> bool {
        matches!(self, NativeV::Accept)
    }
    pub fn label(&self) -> String {
        match self {
            NativeV::Accept => "accept".into(),
            NativeV::Reject(e) => format!("reject:{e}"),
            NativeV::Panic(p) => format!("panic:{p}"),
        }
    }
}

#[derive(Clone, Debug, PartialEq)]
pub enum CircV {
    Accept,
    /// `CircuitRunner::run` (or input setting / MMCS private data) returned Err
    Reject(String),
    /// verify_*_circuit / build returned Err
    BuildErr(String),
    /// documented precondition of an allocation helper not met (harness refuses to call)
    Precond(String),
    /// a panic on the circuit side ("msg @ file:line"), with the entry point that was running
    Panic { entry: String, msg: String },
}
impl CircV {
    pub fn accepts(&self) -> bool {
        matches!(self, CircV::Accept)
    }
    pub fn label(&self) -> String {
        match self {
            CircV::Accept => "accept".into(),
            CircV::Reject(e) => format!("reject:{e}"),
            CircV::BuildErr(e) => format!("build-err:{e}"),
            CircV::Precond(e) => format!("precond:{e}"),
            CircV::Panic { entry, msg } => format!("panic:{entry}:{msg}"),
        }
    }
}

/// First identifier of a Debug rendering (error variant name).
pub fn variant_of(dbg: &str) -> String {
    dbg.split(|c: char| !c.is_alphanumeric() && c != '_').find(|s| !s.is_empty()).unwrap_or("Err").to_string()
}

/// One target of the proof-target structures, located by the C14 walker.
#[derive(Clone, Debug)]
pub struct Entry {
    /// JSON path (into the bundle) of the proof element the target is meant to carry
    pub path: Path,
    /// true: extension element (all coefficients under `path`); false: base element lifted
    pub ext: bool,
    /// ExprId of the target
    pub target: u32,
    pub public: bool,
}

pub struct RunOut {
    pub verdict: CircV,
    /// values of the requested witness slots after a successful run (coefficients)
    pub slots: Vec<Option<Vec<u64>>>,
}

pub trait Compiled {
    /// Structural hash of the built circuit (ops with their witness ids and constants, public /
    /// private input rows): equal fingerprints = the same circuit. Used by C15 to tell whether a
    /// builder that accepted a mutant produced exactly the circuit of the honest shape.
    fn fingerprint(&self) -> u64 {
        0
    }
    fn flat_lens(&self) -> (usize, usize);
    fn public_rows(&self) -> Vec<u32>;
    fn private_rows(&self) -> Vec<u32>;
    /// ExprId -> WitnessId
    fn widx(&self, target: u32) -> Option<u32>;
    /// pack the bundle with the repo's packers: (public, private) as coefficient vectors
    fn pack(&self, b: &Value) -> Result<(Vec<Vec<u64>>, Vec<Vec<u64>>), String>;
    /// pack + MMCS private data + run
    fn run(&self, b: &Value) -> Result<CircV, String>;
    /// run with explicit packed vectors (MMCS private data still from the bundle)
    fn run_packed(&self, b: &Value, pubs: &[Vec<u64>], privs: &[Vec<u64>], read: &[u32]) -> Result<RunOut, String>;
    /// C14 walker
    fn entries(&self) -> Result<Vec<Entry>, String>;
    /// number of trailing public positions carrying the (inaccessible) common-data commitment,
    /// with the JSON path of that commitment
    fn tail_commit(&self) -> Option<Path>;
}

pub trait Ctx {
    /// Err = undeserializable bundle (not a proof)
    fn native(&self, b: &Value) -> Result<NativeV, String>;
    /// `native` plus the full `Debug` rendering of the native verifier's error (C15 classifies
    /// structural vs. cryptographic rejections on it). Same verdict as `native`.
    fn native_detail(&self, b: &Value) -> Result<(NativeV, Option<String>), String> {
        self.native(b).map(|n| (n, None))
    }
    /// build the verification circuit for the shape of `b`
    fn compile<'a>(&'a self, b: &Value) -> Result<Result<Box<dyn Compiled + 'a>, CircV>, String>;
    /// C15 extra entry points: (entry point name, outcome) — every call under `guarded`
    fn extra_entry_points(&self, b: &Value) -> Result<Vec<(String, CircV)>, String>;
    /// C15: `verify_fri_circuit` called directly with malformed arguments (label, outcome)
    fn fri_arg_mutants(&self, _b: &Value) -> Result<Vec<(String, CircV)>, String> {
        Ok(vec![])
    }
    /// C14: the next-layer path with a verifying key (`common_data`) that is NOT the proof's own
    /// `stark_common` object: the honest proof checked against a key whose preprocessed commitment
    /// differs in one word. (label, outcome of build + pack + run); every outcome must be a rejection.
    fn foreign_key_probe(&self, _b: &Value) -> Result<Vec<(String, CircV)>, String> {
        Ok(vec![])
    }
}

pub trait Shape: Send + Sync {
    fn name(&self) -> String;
    /// "uni" | "batch" | "circuit-batch"
    fn kind(&self) -> &'static str;
    fn order(&self) -> u64;
    /// canonical value of a serialized base-field element (None = not a valid encoding)
    fn canon(&self, repr: u64) -> Option<u64>;
    fn honest(&self) -> Result<Value, String>;
    /// Proofs of *false* statements produced by the real prover (it does not check its input in
    /// release builds): invalid traces, wrong public values, tampered multiplicities. Same shape
    /// as the honest proof; transcript- and Merkle-consistent, so only the algebraic checks
    /// (folded constraints == quotient * vanishing, lookup terminal sum) can reject them.
    fn forged(&self) -> Vec<(String, Result<Value, String>)>;
    fn ctx(&self) -> Result<Box<dyn Ctx>, String>;
}

pub fn guard_circ<R>(entry: &str, f: impl FnOnce() -> R) -> Result<R, CircV> {
    p3r_verif::util::guarded(f).map_err(|msg| CircV::Panic { entry: entry.to_string(), msg })
}

/// Normalise a panic site: strip scratch / registry prefixes so signatures are stable.
/// Stable identifier of a panic: `<file>#<message class>` (line numbers shift with unrelated
/// edits, so they are not part of it; digits in the message are masked).
pub fn norm_site(msg: &str) -> String {
    let file = norm_site_file(msg);
    let file = match file.rfind(':') {
        Some(i) if file[i + 1..].chars().all(|c| c.is_ascii_digit()) => file[..i].to_string(),
        _ => file,
    };
    let text = msg.rsplitn(2, " @ ").last().unwrap_or("");
    let class: String = text
        .chars()
        .take(48)
        .map(|c| if c.is_ascii_digit() { '#' } else if c == '\n' { ' ' } else { c })
        .collect();
    let mut class = class.trim().to_string();
    while class.contains("##") {
        class = class.replace("##", "#");
    }
    format!("{file}#{class}")
}

fn norm_site_file(msg: &str) -> String {
    let site = p3r_verif::util::panic_site(msg);
    if let Some(i) = site.find("/repo/") {
        return site[i + 1..].to_string();
    }
    if let Some(i) = site.find("/registry/src/") {
        let rest = &site[i + "/registry/src/".len()..];
        if let Some(j) = rest.find('/') {
            return rest[j + 1..].to_string();
        }
    }
    if let Some(i) = site.find("/library/") {
        if site.starts_with("/rustc/") {
            return format!("rustc{}", &site[i..]);
        }
    }
    if site.contains("c01/airs.rs") {
        // a panic inside the AIR's `eval` (user code) reached from the entry point under test
        return "harness-air-eval".to_string();
    }
    if let Some(i) = site.find("/harness/src/") {
        return format!("harness:{}", &site[i + "/harness/src/".len()..]);
    }
    site
}

pub fn site_in_repo(msg: &str) -> bool {
    norm_site(msg).starts_with("repo/")
}

// ------------------------------------------------------------------------------------------
// Configurations
// ------------------------------------------------------------------------------------------

pub mod cfgs {
    /// BabyBear, degree-4 binomial extension, Poseidon2 width 16.
    pub mod bb {
        pub use p3_test_utils::baby_bear_params::*;
        pub const CFG_NAME: &str = "babybear-d4-w16";
        pub const MAX_LOG_ARITY: usize = crate::kit::FRI_MAX_LOG_ARITY;
        pub const CAP_HEIGHT: usize = 0;
        pub const ZK: bool = false;
        pub const FRI_PREFIX: &str = "";
        pub fn perm_cfg() -> p3_recursion::Poseidon2Config {
            p3_recursion::Poseidon2Config::BABY_BEAR_D4_W16
        }
        pub fn default_perm() -> Perm {
            default_babybear_poseidon2_16()
        }
        pub fn enable_ops(cb: &mut p3_circuit::CircuitBuilder<Challenge>) {
            cb.enable_poseidon2_perm::<p3_poseidon2_circuit_air::BabyBearD4Width16, _>(
                p3_circuit::ops::generate_poseidon2_trace::<Challenge, p3_poseidon2_circuit_air::BabyBearD4Width16>,
                default_perm(),
            );
            cb.enable_recompose::<F>(p3_circuit::ops::generate_recompose_trace::<F, Challenge>);
        }
        pub fn new_builder() -> p3_circuit::CircuitBuilder<Challenge> {
            let mut cb = p3_circuit::CircuitBuilder::<Challenge>::new();
            enable_ops(&mut cb);
            cb
        }
        pub type NlBackend = p3_recursion::FriRecursionBackendForExt<D, WIDTH, RATE, p3_recursion::Poseidon2Config>;
        pub fn nl_backend() -> NlBackend {
            p3_recursion::FriRecursionBackend::<WIDTH, RATE, p3_recursion::Poseidon2Config>::new(perm_cfg())
                .for_extension_degree::<D>()
        }
        include!("plain_pcs.rs");
        include!("cfg_body.rs");
    }

    /// (Merkle caps of height 2: four roots per commitment) BabyBear, degree-4 binomial extension, Poseidon2 width 16.
    pub mod bbc {
        pub use p3_test_utils::baby_bear_params::*;
        pub const CFG_NAME: &str = "babybear-d4-w16-cap2";
        pub const MAX_LOG_ARITY: usize = crate::kit::FRI_MAX_LOG_ARITY;
        pub const CAP_HEIGHT: usize = 2;
        pub const ZK: bool = false;
        pub const FRI_PREFIX: &str = "";
        pub fn perm_cfg() -> p3_recursion::Poseidon2Config {
            p3_recursion::Poseidon2Config::BABY_BEAR_D4_W16
        }
        pub fn default_perm() -> Perm {
            default_babybear_poseidon2_16()
        }
        pub fn enable_ops(cb: &mut p3_circuit::CircuitBuilder<Challenge>) {
            cb.enable_poseidon2_perm::<p3_poseidon2_circuit_air::BabyBearD4Width16, _>(
                p3_circuit::ops::generate_poseidon2_trace::<Challenge, p3_poseidon2_circuit_air::BabyBearD4Width16>,
                default_perm(),
            );
            cb.enable_recompose::<F>(p3_circuit::ops::generate_recompose_trace::<F, Challenge>);
        }
        pub fn new_builder() -> p3_circuit::CircuitBuilder<Challenge> {
            let mut cb = p3_circuit::CircuitBuilder::<Challenge>::new();
            enable_ops(&mut cb);
            cb
        }
        pub type NlBackend = p3_recursion::FriRecursionBackendForExt<D, WIDTH, RATE, p3_recursion::Poseidon2Config>;
        pub fn nl_backend() -> NlBackend {
            p3_recursion::FriRecursionBackend::<WIDTH, RATE, p3_recursion::Poseidon2Config>::new(perm_cfg())
                .for_extension_degree::<D>()
        }
        include!("plain_pcs.rs");
        include!("cfg_body.rs");
    }

    /// KoalaBear, degree-4 binomial extension, Poseidon2 width 16.
    pub mod kb {
        pub use p3_test_utils::koala_bear_params::*;
        pub const CFG_NAME: &str = "koalabear-d4-w16";
        pub const MAX_LOG_ARITY: usize = crate::kit::FRI_MAX_LOG_ARITY;
        pub const CAP_HEIGHT: usize = 0;
        pub const ZK: bool = false;
        pub const FRI_PREFIX: &str = "";
        pub fn perm_cfg() -> p3_recursion::Poseidon2Config {
            p3_recursion::Poseidon2Config::KOALA_BEAR_D4_W16
        }
        pub fn default_perm() -> Perm {
            default_koalabear_poseidon2_16()
        }
        pub fn enable_ops(cb: &mut p3_circuit::CircuitBuilder<Challenge>) {
            cb.enable_poseidon2_perm::<p3_poseidon2_circuit_air::KoalaBearD4Width16, _>(
                p3_circuit::ops::generate_poseidon2_trace::<Challenge, p3_poseidon2_circuit_air::KoalaBearD4Width16>,
                default_perm(),
            );
            cb.enable_recompose::<F>(p3_circuit::ops::generate_recompose_trace::<F, Challenge>);
        }
        pub fn new_builder() -> p3_circuit::CircuitBuilder<Challenge> {
            let mut cb = p3_circuit::CircuitBuilder::<Challenge>::new();
            enable_ops(&mut cb);
            cb
        }
        pub type NlBackend = p3_recursion::FriRecursionBackendForExt<D, WIDTH, RATE, p3_recursion::Poseidon2Config>;
        pub fn nl_backend() -> NlBackend {
            p3_recursion::FriRecursionBackend::<WIDTH, RATE, p3_recursion::Poseidon2Config>::new(perm_cfg())
                .for_extension_degree::<D>()
        }
        include!("plain_pcs.rs");
        include!("cfg_body.rs");
    }

    /// (FRI folding arity up to 4: roll-ins after a phase of log-arity 2) KoalaBear, degree-4 binomial extension, Poseidon2 width 16.
    pub mod kba {
        pub use p3_test_utils::koala_bear_params::*;
        pub const CFG_NAME: &str = "koalabear-d4-w16-arity4";
        pub const MAX_LOG_ARITY: usize = 2;
        pub const CAP_HEIGHT: usize = 0;
        pub const ZK: bool = false;
        pub const FRI_PREFIX: &str = "";
        pub fn perm_cfg() -> p3_recursion::Poseidon2Config {
            p3_recursion::Poseidon2Config::KOALA_BEAR_D4_W16
        }
        pub fn default_perm() -> Perm {
            default_koalabear_poseidon2_16()
        }
        pub fn enable_ops(cb: &mut p3_circuit::CircuitBuilder<Challenge>) {
            cb.enable_poseidon2_perm::<p3_poseidon2_circuit_air::KoalaBearD4Width16, _>(
                p3_circuit::ops::generate_poseidon2_trace::<Challenge, p3_poseidon2_circuit_air::KoalaBearD4Width16>,
                default_perm(),
            );
            cb.enable_recompose::<F>(p3_circuit::ops::generate_recompose_trace::<F, Challenge>);
        }
        pub fn new_builder() -> p3_circuit::CircuitBuilder<Challenge> {
            let mut cb = p3_circuit::CircuitBuilder::<Challenge>::new();
            enable_ops(&mut cb);
            cb
        }
        pub type NlBackend = p3_recursion::FriRecursionBackendForExt<D, WIDTH, RATE, p3_recursion::Poseidon2Config>;
        pub fn nl_backend() -> NlBackend {
            p3_recursion::FriRecursionBackend::<WIDTH, RATE, p3_recursion::Poseidon2Config>::new(perm_cfg())
                .for_extension_degree::<D>()
        }
        include!("plain_pcs.rs");
        include!("cfg_body.rs");
    }

    /// KoalaBear, quintic trinomial extension, base-field Poseidon2 width 16 lifted.
    pub mod kb5 {
        pub use p3_test_utils::koala_bear_quintic_params::*;
        pub const CFG_NAME: &str = "koalabear-quintic-w16";
        pub const MAX_LOG_ARITY: usize = crate::kit::FRI_MAX_LOG_ARITY;
        pub const CAP_HEIGHT: usize = 0;
        pub const ZK: bool = false;
        pub const FRI_PREFIX: &str = "";
        pub fn perm_cfg() -> p3_recursion::Poseidon2Config {
            p3_recursion::Poseidon2Config::KOALA_BEAR_D1_W16
        }
        pub fn default_perm() -> Perm {
            default_koalabear_poseidon2_16()
        }
        pub fn enable_ops(cb: &mut p3_circuit::CircuitBuilder<Challenge>) {
            let lift = LiftKoalaPermForQuintic::new(default_perm());
            cb.enable_poseidon2_perm_base::<p3_circuit::ops::KoalaBearD1Width16, _>(
                p3_circuit::ops::generate_poseidon2_trace::<Challenge, p3_circuit::ops::KoalaBearD1Width16>,
                lift,
            );
            cb.enable_recompose::<F>(p3_circuit::ops::generate_recompose_trace::<F, Challenge>);
            cb.set_recompose_coeff_ctl_for_decompose_links(true);
        }
        pub fn new_builder() -> p3_circuit::CircuitBuilder<Challenge> {
            let mut cb = p3_circuit::CircuitBuilder::<Challenge>::new();
            enable_ops(&mut cb);
            cb
        }
        pub type NlBackend = p3_recursion::FriRecursionBackendD5<WIDTH, RATE, p3_recursion::Poseidon2Config>;
        pub fn nl_backend() -> NlBackend {
            p3_recursion::FriRecursionBackend::<WIDTH, RATE, p3_recursion::Poseidon2Config>::new_d5(perm_cfg())
        }
        include!("plain_pcs.rs");
        include!("cfg_body.rs");
    }

    /// Goldilocks, degree-2 extension, Poseidon2 width 8, 4-element digests.
    pub mod gl {
        pub use p3_test_utils::goldilocks_params::*;
        pub const CFG_NAME: &str = "goldilocks-d2-w8";
        pub const MAX_LOG_ARITY: usize = crate::kit::FRI_MAX_LOG_ARITY;
        pub const CAP_HEIGHT: usize = 0;
        pub const ZK: bool = false;
        pub const FRI_PREFIX: &str = "";
        pub fn perm_cfg() -> p3_recursion::Poseidon2Config {
            p3_recursion::Poseidon2Config::GOLDILOCKS_D2_W8
        }
        pub fn default_perm() -> Perm {
            use rand::SeedableRng;
            let mut rng = rand::rngs::SmallRng::seed_from_u64(1);
            Perm::new_from_rng_128(&mut rng)
        }
        pub fn enable_ops(cb: &mut p3_circuit::CircuitBuilder<Challenge>) {
            cb.enable_poseidon2_perm_width_8::<p3_circuit::ops::GoldilocksD2Width8, _>(
                p3_circuit::ops::generate_poseidon2_trace::<Challenge, p3_circuit::ops::GoldilocksD2Width8>,
                default_perm(),
            );
            cb.enable_recompose::<F>(p3_circuit::ops::generate_recompose_trace::<F, Challenge>);
        }
        pub fn new_builder() -> p3_circuit::CircuitBuilder<Challenge> {
            let mut cb = p3_circuit::CircuitBuilder::<Challenge>::new();
            enable_ops(&mut cb);
            cb
        }
        pub type NlBackend = p3_recursion::FriRecursionBackendForExt<D, WIDTH, RATE, p3_recursion::Poseidon2Config>;
        pub fn nl_backend() -> NlBackend {
            p3_recursion::FriRecursionBackend::<WIDTH, RATE, p3_recursion::Poseidon2Config>::new(perm_cfg())
                .for_extension_degree::<D>()
        }
        include!("plain_pcs.rs");
        include!("cfg_body.rs");
    }

    /// KoalaBear D4 with the hiding (ZK) FRI PCS over plain Merkle MMCSs.
    pub mod kbzk {
        pub use p3_test_utils::koala_bear_params::{
            Challenge, ChallengeMmcs, Challenger, D, DIGEST_ELEMS, Dft, F, MyCompress, MyHash, MyMmcs, Perm, RATE,
            WIDTH,
        };
        pub use p3_test_utils::koala_bear_params::{BasedVectorSpace, PrimeCharacteristicRing};
        use p3_test_utils::koala_bear_params::default_koalabear_poseidon2_16;
        pub const CFG_NAME: &str = "koalabear-d4-w16-zk";
        pub const MAX_LOG_ARITY: usize = crate::kit::FRI_MAX_LOG_ARITY;
        pub const CAP_HEIGHT: usize = 0;
        pub const ZK: bool = true;
        pub const FRI_PREFIX: &str = "[1]";
        pub fn perm_cfg() -> p3_recursion::Poseidon2Config {
            p3_recursion::Poseidon2Config::KOALA_BEAR_D4_W16
        }
        pub fn default_perm() -> Perm {
            default_koalabear_poseidon2_16()
        }
        pub fn enable_ops(cb: &mut p3_circuit::CircuitBuilder<Challenge>) {
            cb.enable_poseidon2_perm::<p3_poseidon2_circuit_air::KoalaBearD4Width16, _>(
                p3_circuit::ops::generate_poseidon2_trace::<Challenge, p3_poseidon2_circuit_air::KoalaBearD4Width16>,
                default_perm(),
            );
            cb.enable_recompose::<F>(p3_circuit::ops::generate_recompose_trace::<F, Challenge>);
        }
        pub fn new_builder() -> p3_circuit::CircuitBuilder<Challenge> {
            let mut cb = p3_circuit::CircuitBuilder::<Challenge>::new();
            enable_ops(&mut cb);
            cb
        }
        include!("hiding_pcs.rs");
        include!("cfg_body.rs");
    }

    /// KoalaBear D4, hiding FRI PCS over *hiding* (salted) Merkle MMCSs.
    pub mod kbzkh {
        pub use p3_test_utils::koala_bear_params::{
            Challenge, Challenger, D, DIGEST_ELEMS, Dft, F, MyCompress, MyHash, Perm, RATE, WIDTH,
        };
        pub use p3_test_utils::koala_bear_params::{BasedVectorSpace, Field, PrimeCharacteristicRing};
        use p3_test_utils::koala_bear_params::default_koalabear_poseidon2_16;
        pub const CFG_NAME: &str = "koalabear-d4-w16-zk-hidingmmcs";
        pub const MAX_LOG_ARITY: usize = crate::kit::FRI_MAX_LOG_ARITY;
        pub const CAP_HEIGHT: usize = 0;
        pub const ZK: bool = true;
        pub const FRI_PREFIX: &str = "[1]";
        pub fn perm_cfg() -> p3_recursion::Poseidon2Config {
            p3_recursion::Poseidon2Config::KOALA_BEAR_D4_W16
        }
        pub fn default_perm() -> Perm {
            default_koalabear_poseidon2_16()
        }
        pub fn enable_ops(cb: &mut p3_circuit::CircuitBuilder<Challenge>) {
            cb.enable_poseidon2_perm::<p3_poseidon2_circuit_air::KoalaBearD4Width16, _>(
                p3_circuit::ops::generate_poseidon2_trace::<Challenge, p3_poseidon2_circuit_air::KoalaBearD4Width16>,
                default_perm(),
            );
            cb.enable_recompose::<F>(p3_circuit::ops::generate_recompose_trace::<F, Challenge>);
        }
        pub fn new_builder() -> p3_circuit::CircuitBuilder<Challenge> {
            let mut cb = p3_circuit::CircuitBuilder::<Challenge>::new();
            enable_ops(&mut cb);
            cb
        }
        include!("hiding_mmcs_pcs.rs");
        include!("cfg_body.rs");
    }

    /// (Merkle caps of height 2: four roots per commitment) KoalaBear D4, hiding FRI PCS over *hiding* (salted) Merkle MMCSs.
    pub mod kbzkhc {
        pub use p3_test_utils::koala_bear_params::{
            Challenge, Challenger, D, DIGEST_ELEMS, Dft, F, MyCompress, MyHash, Perm, RATE, WIDTH,
        };
        pub use p3_test_utils::koala_bear_params::{BasedVectorSpace, Field, PrimeCharacteristicRing};
        use p3_test_utils::koala_bear_params::default_koalabear_poseidon2_16;
        pub const CFG_NAME: &str = "koalabear-d4-w16-zk-hidingmmcs-cap2";
        pub const MAX_LOG_ARITY: usize = crate::kit::FRI_MAX_LOG_ARITY;
        pub const CAP_HEIGHT: usize = 2;
        pub const ZK: bool = true;
        pub const FRI_PREFIX: &str = "[1]";
        pub fn perm_cfg() -> p3_recursion::Poseidon2Config {
            p3_recursion::Poseidon2Config::KOALA_BEAR_D4_W16
        }
        pub fn default_perm() -> Perm {
            default_koalabear_poseidon2_16()
        }
        pub fn enable_ops(cb: &mut p3_circuit::CircuitBuilder<Challenge>) {
            cb.enable_poseidon2_perm::<p3_poseidon2_circuit_air::KoalaBearD4Width16, _>(
                p3_circuit::ops::generate_poseidon2_trace::<Challenge, p3_poseidon2_circuit_air::KoalaBearD4Width16>,
                default_perm(),
            );
            cb.enable_recompose::<F>(p3_circuit::ops::generate_recompose_trace::<F, Challenge>);
        }
        pub fn new_builder() -> p3_circuit::CircuitBuilder<Challenge> {
            let mut cb = p3_circuit::CircuitBuilder::<Challenge>::new();
            enable_ops(&mut cb);
            cb
        }
        include!("hiding_mmcs_pcs.rs");
        include!("cfg_body.rs");
    }
}

/// The first `N_CORE` shapes of `all_shapes`: one of every kind, all four fields, ZK on and off.
pub const N_CORE: usize = 9;

/// All shapes, by tier. `quick` is a subset; `thorough` is everything.
pub fn all_shapes(thorough: bool) -> Vec<Box<dyn Shape>> {
    use airs::TAir;
    let mut v: Vec<Box<dyn Shape>> = vec![];
    let fib = TAir::Fib { rows: 8 };
    let mulp = TAir::Mul { degree: 2, rows: 8, reps: 3, prep: true };
    let muln = TAir::Mul { degree: 3, rows: 8, reps: 2, prep: false };
    let pv = TAir::Pv { rows: 8 };
    let add = TAir::Add { rows: 8 };
    let sub = TAir::Sub { rows: 8 };
    let add64 = TAir::Add { rows: 64 };
    // --- quick subset: one shape of every kind, all four field configurations, ZK on and off
    v.push(cfgs::bb::uni(fib));
    v.push(cfgs::bb::uni(mulp));
    v.push(cfgs::bb::batch(vec![mulp, add, sub]));
    v.push(cfgs::bb::circ(6));
    v.push(cfgs::kb::batch(vec![pv]));
    v.push(cfgs::kb5::uni(fib));
    v.push(cfgs::gl::uni(fib));
    v.push(cfgs::kbzk::batch(vec![add64]));
    v.push(cfgs::kbzkh::batch(vec![add64]));
    {
        v.push(cfgs::bb::uni(muln));
        v.push(cfgs::bb::uni(pv));
        v.push(cfgs::bb::batch(vec![pv]));
        v.push(cfgs::kb::uni(fib));
        v.push(cfgs::kb::uni(mulp));
        v.push(cfgs::kb::batch(vec![mulp, add, sub]));
        v.push(cfgs::kb::circ(6));
        v.push(cfgs::kb5::uni(mulp));
        v.push(cfgs::kb5::batch(vec![mulp, add, sub]));
        v.push(cfgs::kb5::circ(6));
        v.push(cfgs::gl::uni(mulp));
        v.push(cfgs::gl::uni(muln));
        v.push(cfgs::gl::batch(vec![mulp, add, sub]));
        v.push(cfgs::gl::circ(6));
        v.push(cfgs::kbzk::batch(vec![mulp, add, sub]));
        v.push(cfgs::kbzkh::batch(vec![fib]));
        // a commitment round (preprocessed) shorter than the tallest trace: reduced query index
        v.push(cfgs::bb::batch(vec![TAir::Add { rows: 16 }, TAir::Sub { rows: 8 }]));
        v.push(cfgs::kbzkh::batch(vec![TAir::Add { rows: 32 }, TAir::Sub { rows: 8 }]));
        // Merkle caps with more than one root (cap height 2): cap entries are packed root by root
        v.push(cfgs::bbc::uni(mulp));
        v.push(cfgs::bbc::batch(vec![mulp, add, sub]));
        v.push(cfgs::bbc::circ(6));
        v.push(cfgs::kbzkhc::batch(vec![add64]));
        // FRI arity 4 with inputs of several heights (roll-in after a log-arity-2 phase)
        v.push(cfgs::kba::batch(vec![TAir::Add { rows: 32 }, TAir::Sub { rows: 8 }]));
        v.push(cfgs::kba::uni(mulp));
        v.push(cfgs::kba::circ(6));
        // AIRs with periodic columns (in-circuit periodic-polynomial evaluation, C20's gadget, end to end)
        v.push(cfgs::bb::uni(TAir::Per { rows: 8 }));
        v.push(cfgs::kb::batch(vec![TAir::Per { rows: 16 }, add]));
        v.push(cfgs::kbzkh::batch(vec![TAir::Per { rows: 8 }]));
        // uni-STARK of a row-local AIR: no `trace_next` opening at all (the pre-fix uni verifier
        // circuit refused these honest proofs, see known_findings.jsonl `fixed:` C01)
        v.push(cfgs::bb::uni(TAir::AddRl { rows: 8 }));
        v.push(cfgs::kb5::uni(TAir::AddRl { rows: 16 }));
        // batches that mix an AIR with a (local LogUp) lookup and lookup-free AIRs: the proof's
        // `lookup_terminals` / permutation openings are present for some instances only
        v.push(cfgs::bb::batch(vec![TAir::Lk { rows: 8 }, add]));
        v.push(cfgs::kb::batch(vec![add, TAir::Lk { rows: 16 }, mulp]));
        v.push(cfgs::kbzkh::batch(vec![TAir::Lk { rows: 8 }, sub, TAir::Lk { rows: 16 }]));
        // per-instance public values together with a global preprocessed commitment
        v.push(cfgs::bb::batch(vec![mulp, pv]));
        v.push(cfgs::kbzk::batch(vec![pv, mulp, add]));
    }
    if thorough {
        // larger instances: more FRI phases, wider traces, more tables rows, more quotient chunks
        let mul_big = TAir::Mul { degree: 3, rows: 64, reps: 20, prep: true };
        let mul_tall = TAir::Mul { degree: 3, rows: 256, reps: 5, prep: true };
        let fib_big = TAir::Fib { rows: 256 };
        let fib32 = TAir::Fib { rows: 32 };
        let add256 = TAir::Add { rows: 256 };
        let sub32 = TAir::Sub { rows: 32 };
        v.push(cfgs::bb::uni(mul_big));
        v.push(cfgs::bb::uni(fib_big));
        v.push(cfgs::bb::batch(vec![mul_big, add256, sub32, pv]));
        v.push(cfgs::kb::batch(vec![mul_tall, add256, sub32, pv]));
        v.push(cfgs::bb::circ(100));
        v.push(cfgs::kb::uni(fib_big));
        v.push(cfgs::kb::circ(100));
        v.push(cfgs::kb5::uni(fib_big));
        v.push(cfgs::kb5::circ(40));
        v.push(cfgs::gl::uni(fib_big));
        v.push(cfgs::gl::batch(vec![mul_tall, add256, sub32, pv]));
        v.push(cfgs::gl::circ(100));
        v.push(cfgs::kbzk::batch(vec![mul_big, add256, fib32]));
        v.push(cfgs::kbzkh::batch(vec![mul_big, add256, sub32]));
    }
    v
}

/// Shapes whose *honest* proof is already handled differently by the two verifiers on the pinned
/// tree (reported by C01 as `completeness/<kind>/honest-proof..`); kept out of the sweeps:
/// * uni-STARK over the hiding PCS (no integration test of the repository exercises it).
pub fn defect_shapes() -> Vec<Box<dyn Shape>> {
    use airs::TAir;
    vec![
        cfgs::kbzk::uni(TAir::Fib { rows: 8 }),
        // * an AIR whose preprocessed column is declared row-local (`preprocessed_next_row_columns()`
        //   empty, no `preprocessed_next` in the proof): both circuit verifiers insist on a
        //   full-width preprocessed_next opening (uni and batch).
        cfgs::bb::uni(TAir::SubRl { rows: 8 }),
        cfgs::kb::batch(vec![TAir::SubRl { rows: 8 }, TAir::Add { rows: 8 }]),
    ]
}

/// Ad-hoc shape from a spec `cfg/kind/air,air,..` (airs: fibN addN subN pvN mulN mulnN; kind: uni|batch|circN).
pub fn probe_shape(spec: &str) -> Option<Box<dyn Shape>> {
    use airs::TAir;
    let parts: Vec<&str> = spec.split('/').collect();
    if parts.len() < 2 {
        return None;
    }
    let airs: Vec<TAir> = parts
        .get(2)
        .map(|l| {
            l.split(',')
                .filter_map(|t| {
                    let (k, n) = t.split_at(t.find(|c: char| c.is_ascii_digit())?);
                    let rows: usize = n.parse().ok()?;
                    Some(match k {
                        "fib" => TAir::Fib { rows },
                        "add" => TAir::Add { rows },
                        "addrl" => TAir::AddRl { rows },
                        "sub" => TAir::Sub { rows },
                        "subrl" => TAir::SubRl { rows },
                        "lk" => TAir::Lk { rows },
                        "pv" => TAir::Pv { rows },
                        "per" => TAir::Per { rows },
                        "mul" => TAir::Mul { degree: 2, rows, reps: 3, prep: true },
                        "muln" => TAir::Mul { degree: 3, rows, reps: 2, prep: false },
                        _ => return None,
                    })
                })
                .collect()
        })
        .unwrap_or_default();
    macro_rules! mk {
        ($m:ident) => {
            match parts[1] {
                "uni" => Some(cfgs::$m::uni(*airs.first()?)),
                "batch" => Some(cfgs::$m::batch(airs)),
                k if k.starts_with("circ") => Some(cfgs::$m::circ(k[4..].parse().ok()?)),
                _ => None,
            }
        };
    }
    match parts[0] {
        "bb" => mk!(bb),
        "bbc" => mk!(bbc),
        "kba" => mk!(kba),
        "kbzkhc" => mk!(kbzkhc),
        "kb" => mk!(kb),
        "kb5" => mk!(kb5),
        "gl" => mk!(gl),
        "kbzk" => mk!(kbzk),
        "kbzkh" => mk!(kbzkh),
        _ => None,
    }
}

pub fn shape_by_name(name: &str) -> Option<Box<dyn Shape>> {
    all_shapes(true).into_iter().chain(defect_shapes()).find(|s| s.name() == name)
}
