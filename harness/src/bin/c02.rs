//! C02 — compilation preserves the value of every expression and the run outcome.
//!
//! Monitor: for generated programs (G1) the real builder/compiler/runner is executed and every
//! var's witness value is compared with the independent field interpreter (O1); run outcome is
//! compared with O1's verdict on the asserted relations.

use p3_circuit::CircuitError;
use p3_circuit_prover::{ConstraintProfile, TablePacking};
use p3r_verif::fields::*;
use p3r_verif::opsem::ops_text;
use p3r_verif::pgen::{GenOpts, gen_prog, perturb};
use p3r_verif::prog::{Built, Eval, Prog, Stmt, build, eval};
use p3r_verif::util::*;
use rand::RngExt;
use serde_json::{Value, json};

pub fn features<S: Setup>(prog: &Prog, built: &Built<S>) -> Vec<&'static str> {
    use p3_circuit::{AluOpKind, Op};
    let mut f = vec![];
    let c = &built.circuit;
    // aliasing: several distinct expressions on one slot
    let mut per_slot = std::collections::BTreeMap::<u32, usize>::new();
    for (_, w) in c.expr_to_widx.iter() {
        *per_slot.entry(w.0).or_default() += 1;
    }
    if per_slot.values().any(|n| *n > 1) {
        f.push("alias");
    }
    if c.witness_rewrite.as_ref().is_some_and(|m| !m.is_empty()) {
        f.push("dedup");
    }
    if c.ops.iter().any(|op| {
        matches!(op, Op::Alu { kind: AluOpKind::MulAdd, intermediate_out: Some(_), .. })
    }) {
        f.push("fusion");
    }
    // folding / CSE: a non-leaf statement whose result expression is shared with another var
    let defs = prog.var_def(S::D);
    let mut seen = std::collections::BTreeMap::<u32, usize>::new();
    for (v, e) in built.var_expr.iter().enumerate() {
        if let Some(prev) = seen.get(&e.0) {
            let leaf = matches!(prog.stmts[defs[v]], Stmt::Const(_));
            let _ = prev;
            if !leaf {
                f.push("fold-or-cse");
                break;
            }
        }
        seen.insert(e.0, v);
    }
    if c.ops.iter().any(|op| matches!(op, Op::Hint { .. })) {
        f.push("hint");
    }
    if c.ops.iter().any(|op| matches!(op, Op::Alu { kind: AluOpKind::HornerAcc, .. })) {
        f.push("horner");
    }
    if c.ops.iter().any(|op| matches!(op, Op::NonPrimitiveOpWithExecutor { .. })) {
        f.push("npo");
    }
    f
}

fn err_variant(e: &CircuitError) -> String {
    let s = format!("{e:?}");
    s.split(|c: char| !c.is_alphanumeric()).next().unwrap_or("Err").to_string()
}

fn detail<S: Setup>(prog: &Prog, publics: &[S::E], privates: &[S::E], built: Option<&Built<S>>, extra: Value) -> Value {
    json!({
        "setup": S::NAME,
        "prog": prog,
        "publics": publics.iter().map(|p| S::coeffs(p)).collect::<Vec<_>>(),
        "privates": privates.iter().map(|p| S::coeffs(p)).collect::<Vec<_>>(),
        "ops": built.map(|b| ops_text(&b.circuit)),
        "extra": extra,
    })
}

/// Check one (program, input) execution. Returns a verdict.
fn check_input<S: Setup>(
    prog: &Prog,
    built: &Built<S>,
    ev: &Eval<S::E>,
    publics: &[S::E],
    privates: &[S::E],
    what: &str,
) -> Option<(String, Value)> {
    let defs = prog.var_def(S::D);
    let mut runner = built.circuit.runner();
    let r = runner
        .set_public_inputs(publics)
        .and_then(|_| runner.set_private_inputs(privates))
        .and_then(|_| runner.run());
    let sat = ev.all_hold();
    match r {
        Ok(traces) => {
            // (i) values
            for (v, e) in built.var_expr.iter().enumerate() {
                let Some(exp) = ev.vals[v] else { continue };
                let Some(wid) = built.circuit.expr_to_widx.get(e) else {
                    return Some((
                        format!("no-slot/{}", prog.stmts[defs[v]].kind()),
                        detail::<S>(prog, publics, privates, Some(built), json!({"var": v, "what": what})),
                    ));
                };
                let got = traces.witness_trace.get_value(*wid).copied();
                if got != Some(exp) && sat {
                    return Some((
                        format!("value-mismatch/{}", prog.stmts[defs[v]].kind()),
                        detail::<S>(
                            prog,
                            publics,
                            privates,
                            Some(built),
                            json!({"var": v, "stmt": defs[v], "expected": S::coeffs(&exp),
                               "got": got.map(|g| S::coeffs(&g)), "what": what}),
                        ),
                    ));
                }
                if v < 8 && sat {
                    let probed = traces.probe(&format!("v{v}")).copied();
                    if probed != Some(exp) {
                        return Some((
                            "probe-mismatch".into(),
                            detail::<S>(prog, publics, privates, Some(built), json!({"var": v, "what": what})),
                        ));
                    }
                }
            }
            if !sat && !ev.div_zero {
                // (ii) a violated relation was not caught by the run: the produced trace must
                // then be unprovable.
                let packing = TablePacking::default();
                let proved = guarded(|| -> Result<(), String> {
                    let cpd = S::prep(&built.circuit, &packing, ConstraintProfile::Standard)?;
                    let prover = S::prover(packing.clone());
                    let proof = S::prove(&prover, &traces, &cpd)?;
                    S::verify(&prover, &proof)
                });
                let accepted = matches!(proved, Ok(Ok(())));
                if std::env::var("P3R_DEBUG").is_ok() {
                    eprintln!("DEBUG c02 violating run Ok; proved={proved:?}");
                }
                let failing: Vec<_> = ev.failing().iter().map(|r| r.kind.clone()).collect();
                // NPO-bearing circuits need registered table provers; prep/prove errors there are
                // "cannot be proven" which is what the statement allows.
                if accepted {
                    return Some((
                        format!("violating-input-accepted+proved/{}", failing.first().cloned().unwrap_or_default()),
                        detail::<S>(prog, publics, privates, Some(built), json!({"failing": failing, "what": what})),
                    ));
                }
            }
            None
        }
        Err(e) => {
            if sat && !ev.div_zero {
                Some((
                    format!("run-failed-on-satisfying/{}", err_variant(&e)),
                    detail::<S>(prog, publics, privates, Some(built), json!({"error": format!("{e:?}"), "what": what})),
                ))
            } else {
                None
            }
        }
    }
}

/// `check_input` with known-finding triggers mapped to their canonical signature.
fn check_input_sig<S: Setup>(
    prog: &Prog,
    built: &Built<S>,
    ev: &Eval<S::E>,
    publics: &[S::E],
    privates: &[S::E],
    what: &str,
) -> Option<(String, Value)> {
    check_input::<S>(prog, built, ev, publics, privates, what).map(|(sig, d)| {
        if p3r_verif::prog::trigger_ext_selector_decompose::<S>(prog, ev) {
            ("ext-selector-select-then-decompose_ext".to_string(), d)
        } else {
            (sig, d)
        }
    })
}

fn case<S: Setup>(seed: u64, idx: usize, tier: Tier) -> Vec<CaseResult> {
    let mut rng = case_rng(seed, "c02", idx as u64);
    let size = rng.random_range(3..tier.pick(40usize, 70usize));
    let opts = GenOpts {
        size,
        recompose_npo: S::D > 1 && rng.random_range(0..4u32) == 0,
        ..Default::default()
    };
    let g = gen_prog::<S>(&mut rng, &opts);
    run_prog::<S>(&g.prog, &g.publics, &g.privates, &mut rng, idx)
}

fn run_prog<S: Setup>(
    prog: &Prog,
    publics: &[S::E],
    privates: &[S::E],
    rng: &mut rand::rngs::SmallRng,
    idx: usize,
) -> Vec<CaseResult> {
    let key_base = format!("{}:{}", S::NAME, fnv(&serde_json::to_string(&prog.stmts).unwrap()));
    let ev = eval::<S>(prog, publics, privates);
    if !ev.all_hold() || ev.div_zero {
        return vec![CaseResult::inconclusive(key_base, "generator produced a non-satisfying input")];
    }
    let built = match guarded(|| build::<S>(prog)) {
        Ok(Ok(b)) => b,
        Ok(Err(e)) => {
            let v = format!("{e:?}");
            let variant = v.split(|c: char| !c.is_alphanumeric()).next().unwrap_or("").to_string();
            return vec![CaseResult::held(key_base, false).count(format!("builder-rejected/{variant}"), 1)];
        }
        Err(p) => {
            return vec![CaseResult::violated(
                key_base,
                format!("builder-panic/{}", panic_site(&p)),
                detail::<S>(prog, publics, privates, None, json!({"panic": p})),
            )];
        }
    };
    let feats = features::<S>(prog, &built);
    let n_nonleaf = prog
        .stmts
        .iter()
        .filter(|s| !matches!(s, Stmt::Const(_) | Stmt::Public | Stmt::Private))
        .count();
    let nontrivial = n_nonleaf >= 3 && !feats.is_empty();
    let mut out = vec![];
    let mk = |key: String, v: Option<(String, Value)>, nt: bool| {
        let mut r = match v {
            Some((sig, d)) => CaseResult::violated(key, sig, d),
            None => CaseResult::held(key, nt),
        };
        for f in &feats {
            r = r.count(format!("feature/{f}"), 1);
        }
        r
    };
    let shrunk = |sig: &str, pu: &[S::E], pr: &[S::E], d: Value| -> Value {
        let pred = |p: &Prog, a: &[S::E], b: &[S::E]| -> bool {
            let Ok(Ok(bt)) = guarded(|| build::<S>(p)) else { return false };
            let e = eval::<S>(p, a, b);
            matches!(check_input_sig::<S>(p, &bt, &e, a, b, "shrink"), Some((s2, _)) if s2 == sig)
        };
        let (p2, a2, b2) = p3r_verif::prog::shrink::<S>(prog, pu, pr, &pred);
        let Ok(Ok(bt)) = guarded(|| build::<S>(&p2)) else { return d };
        let e = eval::<S>(&p2, &a2, &b2);
        match check_input_sig::<S>(&p2, &bt, &e, &a2, &b2, "shrunk") {
            Some((_, d2)) => d2,
            None => d,
        }
    };
    let v = check_input_sig::<S>(prog, &built, &ev, publics, privates, "satisfying")
        .map(|(s, d)| { let d2 = shrunk(&s, publics, privates, d); (s, d2) });
    let mut first = mk(format!("{key_base}:sat"), v, nontrivial).count(format!("setup/{}", S::NAME), 1);
    if idx < 6 {
        first = first.with_sample(json!({"setup": S::NAME, "stmts": prog.stmts.len(),
            "prog": prog.stmts.iter().take(30).map(|s| format!("{s:?}")).collect::<Vec<_>>(),
            "ops": built.circuit.ops.len(), "features": feats}));
    }
    out.push(first);
    for k in 0..3 {
        let (p2, q2, which) = perturb::<S>(rng, publics, privates);
        let ev2 = eval::<S>(prog, &p2, &q2);
        let v = check_input_sig::<S>(prog, &built, &ev2, &p2, &q2, &format!("perturbed {which}"))
            .map(|(s, d)| { let d2 = shrunk(&s, &p2, &q2, d); (s, d2) });
        let class = if ev2.div_zero {
            "perturbed/div-zero"
        } else if ev2.all_hold() {
            "perturbed/still-satisfying"
        } else {
            "perturbed/violating"
        };
        out.push(mk(format!("{key_base}:p{k}:{which}"), v, nontrivial).count(class, 1));
    }
    out
}

fn dispatch(setup: &str, seed: u64, idx: usize, tier: Tier) -> Vec<CaseResult> {
    match setup {
        "babybear-d1" => case::<BbD1>(seed, idx, tier),
        "babybear-d4" => case::<BbD4>(seed, idx, tier),
        "koalabear-d1" => case::<KbD1>(seed, idx, tier),
        "koalabear-d4" => case::<KbD4>(seed, idx, tier),
        "koalabear-d8" => case::<KbD8>(seed, idx, tier),
        "koalabear-d5-quintic" => case::<KbD5>(seed, idx, tier),
        "goldilocks-d1" => case::<GlD1>(seed, idx, tier),
        _ => case::<GlD2>(seed, idx, tier),
    }
}

const SETUPS: [&str; 8] = [
    "babybear-d1",
    "babybear-d4",
    "koalabear-d1",
    "koalabear-d5-quintic",
    "goldilocks-d2",
    "koalabear-d4",
    "goldilocks-d1",
    "koalabear-d8",
];

fn replay(path: &std::path::Path) -> Vec<CaseResult> {
    let v: Value = serde_json::from_str(&std::fs::read_to_string(path).expect("replay file")).unwrap();
    let d = &v["detail"];
    let prog: Prog = serde_json::from_value(d["prog"].clone()).unwrap();
    let setup = d["setup"].as_str().unwrap().to_string();
    fn go<S: Setup>(prog: &Prog, d: &Value) -> Vec<CaseResult> {
        let conv = |x: &Value| -> Vec<S::E> {
            x.as_array()
                .unwrap()
                .iter()
                .map(|c| S::el(&c.as_array().unwrap().iter().map(|u| u.as_u64().unwrap()).collect::<Vec<_>>()))
                .collect()
        };
        let (p, q) = (conv(&d["publics"]), conv(&d["privates"]));
        let ev = eval::<S>(prog, &p, &q);
        let built = build::<S>(prog).expect("build");
        let v = check_input_sig::<S>(prog, &built, &ev, &p, &q, "replay");
        vec![match v {
            Some((sig, det)) => CaseResult::violated("replay", sig, det),
            None => CaseResult::held("replay", true),
        }]
    }
    match setup.as_str() {
        "babybear-d1" => go::<BbD1>(&prog, d),
        "babybear-d4" => go::<BbD4>(&prog, d),
        "koalabear-d1" => go::<KbD1>(&prog, d),
        "koalabear-d4" => go::<KbD4>(&prog, d),
        "koalabear-d8" => go::<KbD8>(&prog, d),
        "koalabear-d5-quintic" => go::<KbD5>(&prog, d),
        "goldilocks-d1" => go::<GlD1>(&prog, d),
        _ => go::<GlD2>(&prog, d),
    }
}

fn main() {
    let args = parse_args();
    let mut rep = Report::new(
        "C02",
        "exploration",
        &args,
        "case = (generated program, input); 1 satisfying + 3 single-input perturbations per program; \
         non-trivial = >=3 non-leaf statements and >=1 compiler special case observed in the compiled \
         circuit (slot aliasing, folding/CSE, ALU de-duplication, mul-add fusion, hints, horner); \
         distinct by (setup, program structure hash, input class)",
    );
    rep.assume("O1 field interpreter (harness/src/prog.rs) is the reference semantics of builder calls");
    rep.assume("native p3-field arithmetic is correct");
    if let Some(p) = &args.replay {
        let rs = replay(p);
        rep.add_all(rs);
        rep.finish(0);
    }
    let n = args.tier.pick(160_000usize, 3_000_000usize);
    if let Some(one) = args.extra.get("only") {
        let i: usize = one.parse().unwrap();
        let rs = dispatch(SETUPS[i % SETUPS.len()], args.seed, i, args.tier);
        println!("case {i}: {} results", rs.len());
        rep.add_all(rs);
        rep.finish(0);
    }
    let seed = args.seed;
    let tier = args.tier;
    let from: usize = args.extra.get("from").and_then(|s| s.parse().ok()).unwrap_or(0);
    let n = args.extra.get("to").and_then(|s| s.parse::<usize>().ok()).map(|t| t - from).unwrap_or(n - from.min(n));
    let rs = run_cases_isolated(n, args.threads, |i| dispatch(SETUPS[(i + from) % SETUPS.len()], seed, i + from, tier));
    rep.add_all(rs);
    // second stream: library-built circuits (real verifier / challenger / FRI circuits) judged by
    // c02lib through the builder snapshot hook. Its syntactic "lib-carried" sub-oracle is not
    // imported: it is only a sufficient condition and could false-alarm on a legitimate new
    // optimisation (available for manual runs of c02lib).
    let lib = import_emitted("c02lib", "C02", &args, |r| !r.key.contains("libcarry"));
    rep.bump("library-circuit-cases", lib.len() as u64);
    rep.add_all(lib);
    rep.finish(args.tier.pick(10_000, 200_000));
}
