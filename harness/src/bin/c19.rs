//! C19 — the runner fails safely on missing, extra or conflicting inputs, identically in debug
//! and optimised builds.
//!
//! Fault enumeration on the runner API. Every scenario (a circuit + an input fault) is executed
//! by this (release) binary and by a dev-profile build of the same binary (`--worker` mode);
//! outcomes are compared. A faulted execution must return `Err` somewhere (set_* or run), never
//! `Ok(traces)`, and both profiles must agree on the stage and error variant. The thorough tier
//! additionally replays a sample under Miri (undefined behaviour / unchecked reads).

use std::collections::BTreeMap;
use std::process::Command;

use p3_baby_bear::{BabyBear, default_babybear_poseidon2_16};
use p3_circuit::ops::{NpoPrivateData, Poseidon2Config, Poseidon2PermCall, Poseidon2PermPrivateData, generate_poseidon2_trace};
use p3_circuit::{Circuit, CircuitBuilder, NonPrimitiveOpId};
use p3_field::extension::BinomialExtensionField;
use p3_field::PrimeCharacteristicRing;
use p3_poseidon2_circuit_air::BabyBearD4Width16;
use p3r_verif::fields::{BbD1, BbD4, GlD2, KbD5, Setup};
use p3r_verif::pgen::{GenOpts, gen_prog};
use p3r_verif::prog::build;
use p3r_verif::util::*;
use rand::RngExt;
use rand::rngs::SmallRng;
use serde_json::{Value, json};

type EF4 = BinomialExtensionField<BabyBear, 4>;

/// The faults. Each is applied to an otherwise complete, satisfying set of inputs.
const FAULTS: &[&str] = &[
    "none",
    "no-public",
    "public-short",
    "public-long",
    "no-private",
    "private-short",
    "private-long",
    "public-twice-different",
    "private-twice-different",
    "private-data-missing",
    "private-data-twice",
    "private-data-unknown-op",
    "private-data-wrong-type",
    "private-data-wrong-size",
    "nonbool-direction-bit",
    "conflicting-public-value",
    "asserted-relation-violated",
];

/// Slots written by a `Const` op: an input aliased (via connect) to a constant is determined by
/// the circuit itself, so withholding it is not an observable omission.
fn const_slots<E: p3_field::Field>(c: &Circuit<E>) -> std::collections::BTreeSet<u32> {
    c.ops
        .iter()
        .filter_map(|o| match o {
            p3_circuit::Op::Const { out, .. } => Some(out.0),
            _ => None,
        })
        .collect()
}

struct Scenario<E> {
    circuit: Circuit<E>,
    publics: Vec<E>,
    privates: Vec<E>,
    /// (op id, sibling) private data for merkle rows
    pdata: Vec<(NonPrimitiveOpId, Vec<E>)>,
    /// index of a public input that is the merkle direction bit (if any)
    dir_bit_public: Option<usize>,
    /// which op kinds consume inputs directly (for the distinctness key)
    consumer: &'static str,
    /// (index of a public input, value) that violates a relation the circuit asserts on that input
    /// (boolean check, zero check, non-zero divisor): fault `asserted-relation-violated`
    violating_public: Option<(usize, E)>,
}

fn variant(e: &impl std::fmt::Debug) -> String {
    let s = format!("{e:?}");
    s.split(|c: char| !c.is_alphanumeric()).find(|x| !x.is_empty()).unwrap_or("Err").to_string()
}

/// Execute one faulted scenario; returns "stage:Outcome".
fn execute<E: p3_field::Field>(sc: &Scenario<E>, fault: &str) -> Option<String> {
    let one = E::ONE;
    let mut runner = sc.circuit.runner();
    let cs = const_slots(&sc.circuit);
    let all_public_const = sc.circuit.public_rows.iter().all(|w| cs.contains(&w.0));
    let all_private_const = sc.circuit.private_input_rows.iter().all(|w| cs.contains(&w.0));
    let applicable = match fault {
        "no-public" if all_public_const => false,
        "no-private" if all_private_const => false,
        "public-short" | "public-twice-different" | "conflicting-public-value" => !sc.publics.is_empty(),
        "no-public" => !sc.publics.is_empty(),
        "no-private" | "private-short" | "private-twice-different" => !sc.privates.is_empty(),
        f if f.starts_with("private-data") => !sc.pdata.is_empty(),
        "nonbool-direction-bit" => sc.dir_bit_public.is_some(),
        "asserted-relation-violated" => sc.violating_public.is_some(),
        _ => true,
    };
    if !applicable {
        return None;
    }
    // public inputs
    let mut publics = sc.publics.clone();
    match fault {
        "public-short" => {
            publics.pop();
        }
        "public-long" => publics.push(one),
        "nonbool-direction-bit" => publics[sc.dir_bit_public.unwrap()] = one + one,
        "asserted-relation-violated" => {
            let (i, v) = sc.violating_public.unwrap();
            publics[i] = v;
        }
        "conflicting-public-value" => {
            let last = publics.len() - 1;
            publics[last] += one;
        }
        _ => {}
    }
    if fault != "no-public" {
        if let Err(e) = runner.set_public_inputs(&publics) {
            return Some(format!("set_public:Err({})", variant(&e)));
        }
        if fault == "public-twice-different" {
            let mut p2 = publics.clone();
            p2[0] += one;
            if let Err(e) = runner.set_public_inputs(&p2) {
                return Some(format!("set_public2:Err({})", variant(&e)));
            }
        }
    }
    // private inputs
    let mut privates = sc.privates.clone();
    match fault {
        "private-short" => {
            privates.pop();
        }
        "private-long" => privates.push(one),
        _ => {}
    }
    if fault != "no-private" {
        if let Err(e) = runner.set_private_inputs(&privates) {
            return Some(format!("set_private:Err({})", variant(&e)));
        }
        if fault == "private-twice-different" {
            let mut p2 = privates.clone();
            p2[0] += one;
            if let Err(e) = runner.set_private_inputs(&p2) {
                return Some(format!("set_private2:Err({})", variant(&e)));
            }
        }
    }
    // private data
    for (k, (op, sib)) in sc.pdata.iter().enumerate() {
        if fault == "private-data-missing" && k == 0 {
            continue;
        }
        let data = if fault == "private-data-wrong-type" && k == 0 {
            NpoPrivateData::new(12345u64)
        } else if fault == "private-data-wrong-size" && k == 0 {
            let mut s = sib.clone();
            s.pop();
            NpoPrivateData::new(Poseidon2PermPrivateData { sibling: s })
        } else {
            NpoPrivateData::new(Poseidon2PermPrivateData { sibling: sib.clone() })
        };
        if let Err(e) = runner.set_private_data(*op, data) {
            return Some(format!("set_private_data:Err({})", variant(&e)));
        }
        if fault == "private-data-twice" && k == 0 {
            if let Err(e) = runner.set_private_data(*op, NpoPrivateData::new(Poseidon2PermPrivateData { sibling: sib.clone() })) {
                return Some(format!("set_private_data2:Err({})", variant(&e)));
            }
        }
    }
    if fault == "private-data-unknown-op" {
        if let Err(e) = runner.set_private_data(NonPrimitiveOpId(9999), NpoPrivateData::new(Poseidon2PermPrivateData { sibling: Vec::<E>::new() })) {
            return Some(format!("set_private_data_unknown:Err({})", variant(&e)));
        }
    }
    // a withheld public input is "determined anyway" only when its slot is fixed before execution
    // starts: by a constant of the circuit or by a private input that was provided
    let pr: std::collections::BTreeSet<u32> = sc.circuit.private_input_rows.iter().map(|w| w.0).collect();
    let publics_fixed_before_run = sc.circuit.public_rows.iter().all(|w| cs.contains(&w.0) || pr.contains(&w.0));
    Some(match runner.run() {
        Ok(_) if fault == "no-public" && !publics_fixed_before_run => {
            // success although a public input that only the computation could have filled in was never set
            "run:Ok(public-inputs-never-set,filled-in-by-the-computation)".to_string()
        }
        Ok(t) => {
            // digest of the produced witness: a faulted run that succeeds must at least have
            // produced exactly the unfaulted witness (the withheld input was redundant)
            let mut h = 0xcbf29ce484222325u64;
            for i in 0..t.witness_trace.num_rows() {
                let v = format!("{:?}", t.witness_trace.get_value(p3_circuit::WitnessId(i as u32)));
                h = (h ^ fnv(&v)).wrapping_mul(0x100000001b3);
            }
            format!("run:Ok#{h:016x}")
        }
        Err(e) => format!("run:Err({})", variant(&e)),
    })
}

/// Generated ALU/hint program (any setup) — inputs consumed by ALU rows and hints.
fn scenario_prog<S: Setup>(rng: &mut SmallRng) -> Option<Scenario<S::E>> {
    let opts = GenOpts {
        size: rng.random_range(3..18),
        clean: true,
        ..Default::default()
    };
    let g = gen_prog::<S>(rng, &opts);
    let built = match guarded(|| build::<S>(&g.prog)) {
        Ok(Ok(b)) => b,
        Ok(Err(_)) => return None,
        Err(p) => {
            // the builder panicked (in a dev-profile build: a debug assertion of the builder);
            // recorded so that the parent can tell "scenario not buildable in this profile"
            BUILD_PANIC.with(|b| *b.borrow_mut() = Some(panic_site(&p)));
            return None;
        }
    };
    Some(Scenario {
        circuit: built.circuit,
        publics: g.publics,
        privates: g.privates,
        pdata: vec![],
        dir_bit_public: None,
        consumer: "alu+hint",
        violating_public: None,
    })
}

/// Poseidon2 (BabyBear D4 W16) circuits whose rows are fed directly by private / public inputs:
/// `kind` 0 = one sponge permutation on 4 private inputs; 1 = chained second permutation;
/// 2 = Merkle path of two rows (direction bits public, siblings as private data).
fn scenario_poseidon(rng: &mut SmallRng, kind: u32) -> Option<Scenario<EF4>> {
    let perm = default_babybear_poseidon2_16();
    let mut b = CircuitBuilder::<EF4>::new();
    b.enable_poseidon2_perm::<BabyBearD4Width16, _>(generate_poseidon2_trace::<EF4, BabyBearD4Width16>, perm);
    let cfg = Poseidon2Config::BABY_BEAR_D4_W16;
    let rnd = |rng: &mut SmallRng| -> EF4 { BbD4::el(&[rng.random::<u64>(), rng.random::<u64>(), rng.random::<u64>(), rng.random::<u64>()]) };
    let mut publics = vec![];
    let mut privates = vec![];
    let mut pdata = vec![];
    let mut dir_bit_public = None;
    let mut expected_digest = false;
    match kind {
        0 | 1 | 3 => {
            let ins: Vec<_> = (0..4).map(|_| b.alloc_private_input("in")).collect();
            for _ in 0..4 {
                privates.push(rnd(rng));
            }
            let (_id, outs) = b
                .add_poseidon2_perm(&Poseidon2PermCall {
                    config: cfg,
                    new_start: true,
                    merkle_path: false,
                    mmcs_bit: None,
                    mmcs_bit2: None,
                    inputs: ins.iter().map(|x| Some(*x)).collect(),
                    out_ctl: vec![true, true],
                    return_all_outputs: false,
                    mmcs_index_sum: None,
                })
                .ok()?;
            let o0 = outs[0]?;
            // half of the single-permutation scenarios check the digest against expected-digest
            // public inputs (connect of an exposed output limb to a slot the caller sets)
            if kind != 1 && rng.random_range(0..2u32) == 1 {
                use p3_field::BasedVectorSpace;
                use p3_symmetric::Permutation;
                let mut st = [BabyBear::ZERO; 16];
                for (i, e) in privates.iter().enumerate() {
                    st[4 * i..4 * i + 4].copy_from_slice(<EF4 as BasedVectorSpace<BabyBear>>::as_basis_coefficients_slice(e));
                }
                default_babybear_poseidon2_16().permute_mut(&mut st);
                for k in 0..2 {
                    let exp = b.public_input();
                    b.connect(outs[k]?, exp);
                    publics.push(<EF4 as BasedVectorSpace<BabyBear>>::from_basis_coefficients_slice(&st[4 * k..4 * k + 4])?);
                }
                expected_digest = true;
            }
            if kind == 3 {
                // the private inputs feed only the permutation row
                let _ = b.mul(o0, o0);
            } else {
                // make the private inputs and the output take part in ALU rows
                let s = b.add(ins[0], ins[1]);
                let s = b.add(s, ins[2]);
                let s = b.add(s, ins[3]);
                let _ = b.mul(s, o0);
            }
            if kind == 1 {
                let extra = b.alloc_private_input("in2");
                privates.push(rnd(rng));
                let (_id2, outs2) = b
                    .add_poseidon2_perm(&Poseidon2PermCall {
                        config: cfg,
                        new_start: false,
                        merkle_path: false,
                        mmcs_bit: None,
                        mmcs_bit2: None,
                        inputs: vec![Some(extra), None, None, None],
                        out_ctl: vec![true, true],
                        return_all_outputs: false,
                        mmcs_index_sum: None,
                    })
                    .ok()?;
                let q = outs2[0]?;
                let _ = b.mul(q, extra);
            }
        }
        _ => {
            let leaf: Vec<_> = (0..2).map(|_| b.alloc_private_input("leaf")).collect();
            privates.push(rnd(rng));
            privates.push(rnd(rng));
            let _ = b.mul(leaf[0], leaf[1]);
            let bit0 = b.public_input();
            publics.push(EF4::from_bool(rng.random_range(0..2u32) == 1));
            dir_bit_public = Some(0);
            let (id0, _o) = b
                .add_poseidon2_perm(&Poseidon2PermCall {
                    config: cfg,
                    new_start: true,
                    merkle_path: true,
                    mmcs_bit: Some(bit0),
                    mmcs_bit2: None,
                    inputs: vec![Some(leaf[0]), Some(leaf[1]), None, None],
                    out_ctl: vec![false, false],
                    return_all_outputs: false,
                    mmcs_index_sum: None,
                })
                .ok()?;
            pdata.push((id0, vec![rnd(rng), rnd(rng)]));
            let bit1 = b.public_input();
            publics.push(EF4::from_bool(rng.random_range(0..2u32) == 1));
            let (id1, outs) = b
                .add_poseidon2_perm(&Poseidon2PermCall {
                    config: cfg,
                    new_start: false,
                    merkle_path: true,
                    mmcs_bit: Some(bit1),
                    mmcs_bit2: None,
                    inputs: vec![None; 4],
                    out_ctl: vec![true, true],
                    return_all_outputs: false,
                    mmcs_index_sum: None,
                })
                .ok()?;
            pdata.push((id1, vec![rnd(rng), rnd(rng)]));
            let o0 = outs[0]?;
            let o1 = outs[1]?;
            let _ = b.mul(o0, o1);
        }
    }
    let circuit = guarded(|| b.build()).ok()?.ok()?;
    Some(Scenario {
        circuit,
        publics,
        privates,
        pdata,
        dir_bit_public,
        consumer: match (kind, expected_digest) {
            (0, false) => "poseidon2-sponge",
            (0, true) => "poseidon2-sponge+expected-digest",
            (1, _) => "poseidon2-chained",
            (3, false) => "poseidon2-sponge-inputs-only-npo",
            (3, true) => "poseidon2-sponge-inputs-only-npo+expected-digest",
            _ => "poseidon2-merkle",
        },
        violating_public: None,
    })
}

/// Directed circuits that assert a relation on a public input: `kind` 0 = `assert_bool(p)` (fault:
/// p = 2), 1 = `assert_zero(p - c)` (fault: p = c + 1), 2 = `x / p` (fault: p = 0 with x != 0),
/// 3 = `assert_bool` of a computed value `p * q` (fault: p such that p*q = 2). The input also feeds
/// ordinary ALU rows so that the circuit is not degenerate.
fn scenario_assert<S: Setup>(rng: &mut SmallRng, kind: u32) -> Option<Scenario<S::E>> {
    let mut b = CircuitBuilder::<S::E>::new();
    let p = b.public_input();
    let x = b.public_input();
    let xv = S::el(&[3 + rng.random::<u64>() % 1000]);
    let (pv, viol, consumer): (S::E, S::E, &'static str) = match kind {
        0 => {
            b.assert_bool(p);
            let m = b.mul(p, x);
            let _ = b.add(m, x);
            let bit = S::el(&[rng.random_range(0..2u64)]);
            (bit, S::el(&[2]), "alu-assert-bool")
        }
        1 => {
            let c = S::el(&[5 + rng.random::<u64>() % 1000]);
            let ce = b.define_const(c);
            let d = b.sub(p, ce);
            b.assert_zero(d);
            let _ = b.mul(p, x);
            (c, c + S::E::ONE, "alu-assert-zero")
        }
        2 => {
            let q = b.div(x, p);
            let _ = b.add(q, x);
            (S::el(&[2 + rng.random::<u64>() % 1000]), S::E::ZERO, "alu-div")
        }
        _ => {
            let m = b.mul(p, x);
            b.assert_bool(m);
            let _ = b.add(m, x);
            // honest: p = 0 -> m = 0; violating: p = 2/x -> m = 2
            (S::E::ZERO, S::el(&[2]) * p3_field::Field::inverse(&xv), "alu-assert-bool-computed")
        }
    };
    let circuit = guarded(|| b.build()).ok()?.ok()?;
    Some(Scenario {
        circuit,
        publics: vec![pv, xv],
        privates: vec![],
        pdata: vec![],
        dir_bit_public: None,
        consumer,
        violating_public: Some((0, viol)),
    })
}

/// All outcomes of scenario `idx`: fault -> outcome, plus the consumer class.
fn outcomes(seed: u64, idx: usize) -> (String, BTreeMap<String, String>) {
    let mut rng = case_rng(seed, "c19", idx as u64);
    fn all<E: p3_field::Field>(sc: &Scenario<E>) -> BTreeMap<String, String> {
        let mut m = BTreeMap::new();
        for f in FAULTS {
            let r = guarded(|| execute(sc, f));
            match r {
                Ok(Some(o)) => {
                    m.insert(f.to_string(), o);
                }
                Ok(None) => {}
                Err(p) => {
                    m.insert(f.to_string(), format!("panic:{}", panic_site(&p)));
                }
            }
        }
        m
    }
    // every 16th scenario: a directed assertion circuit (kinds cycle with the index, two setups)
    if idx % 16 == 9 {
        let kind = ((idx / 16) % 4) as u32;
        return if (idx / 64) % 2 == 0 {
            scenario_assert::<BbD1>(&mut rng, kind).map(|sc| (sc.consumer.to_string(), all(&sc))).unwrap_or_default()
        } else {
            scenario_assert::<BbD4>(&mut rng, kind).map(|sc| (sc.consumer.to_string(), all(&sc))).unwrap_or_default()
        };
    }
    match idx % 8 {
        0 | 1 | 2 | 3 => match scenario_poseidon(&mut rng, (idx % 8) as u32) {
            Some(sc) => (sc.consumer.to_string(), all(&sc)),
            None => ("none".into(), BTreeMap::new()),
        },
        7 => scenario_prog::<BbD1>(&mut rng).map(|sc| (sc.consumer.to_string(), all(&sc))).unwrap_or_default(),
        4 => scenario_prog::<GlD2>(&mut rng).map(|sc| (sc.consumer.to_string(), all(&sc))).unwrap_or_default(),
        5 => scenario_prog::<KbD5>(&mut rng).map(|sc| (sc.consumer.to_string(), all(&sc))).unwrap_or_default(),
        _ => scenario_prog::<BbD4>(&mut rng).map(|sc| (sc.consumer.to_string(), all(&sc))).unwrap_or_default(),
    }
}

thread_local! {
    static BUILD_PANIC: std::cell::RefCell<Option<String>> = const { std::cell::RefCell::new(None) };
}

fn worker(seed: u64, from: usize, to: usize, skip_goldilocks: bool) {
    for idx in from..to {
        // Goldilocks arithmetic uses inline assembly on x86_64, which Miri cannot interpret
        if skip_goldilocks && idx % 8 == 4 {
            continue;
        }
        BUILD_PANIC.with(|b| *b.borrow_mut() = None);
        let (consumer, mut m) = outcomes(seed, idx);
        if let Some(site) = BUILD_PANIC.with(|b| b.borrow_mut().take()) {
            m.insert("__build_panic".into(), site);
        }
        println!("{}", json!({"idx": idx, "consumer": consumer, "outcomes": m}));
    }
}

fn run_worker_binary(cmd: &mut Command) -> Result<BTreeMap<usize, BTreeMap<String, String>>, String> {
    let out = cmd.output().map_err(|e| format!("spawn: {e}"))?;
    let stderr = String::from_utf8_lossy(&out.stderr).to_string();
    let mut m = BTreeMap::new();
    for line in String::from_utf8_lossy(&out.stdout).lines() {
        if let Ok(v) = serde_json::from_str::<Value>(line) {
            if let (Some(i), Some(o)) = (v["idx"].as_u64(), v["outcomes"].as_object()) {
                m.insert(i as usize, o.iter().map(|(k, v)| (k.clone(), v.as_str().unwrap_or("").to_string())).collect());
            }
        }
    }
    if !out.status.success() {
        return Err(format!("worker exited with {:?}: {}", out.status.code(), stderr.lines().filter(|l| l.contains("Undefined Behavior") || l.contains("error") || l.starts_with("==")).take(5).collect::<Vec<_>>().join(" | ")));
    }
    Ok(m)
}

fn main() {
    let args = parse_args();
    if args.extra.contains_key("worker") {
        let from: usize = args.extra.get("from").and_then(|s| s.parse().ok()).unwrap_or(0);
        let to: usize = args.extra.get("to").and_then(|s| s.parse().ok()).unwrap_or(0);
        worker(args.seed, from, to, args.extra.contains_key("skip-goldilocks"));
        return;
    }
    let mut rep = Report::new(
        "C19",
        "fault_enumeration",
        &args,
        "case = (circuit, input fault) executed in the release build and in a dev-profile build of the same code; \
         non-trivial = the fault removes / changes something the circuit consumes; distinct by (consumer class, fault, \
         scenario index)",
    );
    rep.assume("profiles compared: release (opt, no debug assertions) vs dev (opt-level 1, debug assertions on); Miri sample (quick 8, thorough 64 scenarios) and a valgrind memcheck sample of the release binary (thorough 256 scenarios, incl. Goldilocks which Miri skips)");
    let n = args.tier.pick(400usize, 12_000usize);
    let seed = args.seed;
    // release outcomes (this process)
    let rel: Vec<(usize, String, BTreeMap<String, String>)> = {
        let v = std::sync::Mutex::new(vec![]);
        let _ = run_cases(n, args.threads, |i| {
            let (c, m) = outcomes(seed, i);
            v.lock().unwrap().push((i, c, m));
            vec![]
        });
        let mut x = v.into_inner().unwrap();
        x.sort_by_key(|t| t.0);
        x
    };
    // dev outcomes (worker processes of the dev-profile binary)
    let exe = std::env::current_exe().unwrap();
    let dev_exe = exe.parent().unwrap().parent().unwrap().join("debug").join("c19");
    let mut dev: BTreeMap<usize, BTreeMap<String, String>> = BTreeMap::new();
    let mut dev_err = None;
    if !dev_exe.exists() {
        dev_err = Some(format!("dev-profile binary {} not built", dev_exe.display()));
    } else {
        let shards = args.threads.max(1);
        let per = n.div_ceil(shards);
        let results: Vec<Result<BTreeMap<usize, BTreeMap<String, String>>, String>> = std::thread::scope(|s| {
            let hs: Vec<_> = (0..shards)
                .map(|k| {
                    let dev_exe = dev_exe.clone();
                    s.spawn(move || {
                        let (a, b) = (k * per, ((k + 1) * per).min(n));
                        if a >= b {
                            return Ok(BTreeMap::new());
                        }
                        run_worker_binary(Command::new(&dev_exe).args(["--worker", "1", "--seed", &seed.to_string(), "--from", &a.to_string(), "--to", &b.to_string()]))
                    })
                })
                .collect();
            hs.into_iter().map(|h| h.join().unwrap()).collect()
        });
        for r in results {
            match r {
                Ok(m) => dev.extend(m),
                Err(e) => dev_err = Some(e),
            }
        }
    }
    if let Some(e) = &dev_err {
        rep.add(CaseResult::inconclusive("dev-worker", format!("dev-profile worker failed: {e}")));
    }
    for (idx, consumer, m) in &rel {
        for (fault, out_rel) in m {
            let key = format!("{consumer}:{fault}:{idx}");
            let out_dev = dev.get(idx).and_then(|d| d.get(fault)).cloned();
            rep.observe("release-outcomes", format!("{fault} -> {out_rel}"));
            let mk_detail = || json!({"seed": seed, "idx": idx, "consumer": consumer, "fault": fault, "release": out_rel, "dev": out_dev});
            if fault == "none" {
                // the unfaulted execution must succeed (sanity of the scenario) in both profiles
                if !out_rel.starts_with("run:Ok") {
                    rep.add(CaseResult::inconclusive(key, format!("unfaulted scenario does not run: {out_rel}")));
                } else if out_dev.as_deref().is_some_and(|d| d != out_rel) {
                    rep.add(CaseResult::violated(key, format!("profile-divergence/none/{consumer}"), mk_detail()));
                } else {
                    rep.add(CaseResult::held(key, false).count("unfaulted-ok", 1));
                }
                continue;
            }
            // "long" vectors and a perturbed last public may legitimately be harmless only if the
            // API says so: length is always checked; a perturbed value may still satisfy the circuit.
            // boolean checks are enforced by the proof system, not by the witness generator: a
            // non-boolean value under assert_bool is not a *witness conflict* (the mechanism C19
            // names), so a successful run is not judged here (C02 judges that the trace cannot be
            // proven); the two profiles must still agree. Zero checks (connect) and divisions are
            // enforced by the runner and are judged.
            let bool_only = fault == "asserted-relation-violated" && consumer.starts_with("alu-assert-bool");
            let may_succeed = (fault == "conflicting-public-value" && !consumer.ends_with("+expected-digest")) || bool_only;
            // a faulted run that produces exactly the unfaulted witness used no unset value: the
            // withheld / altered input was determined by the circuit itself (aliased to a constant
            // or to a computed value)
            let same_as_unfaulted = m.get("none").is_some_and(|o| o == out_rel);
            let determined_conflict = (fault == "conflicting-public-value" && consumer.ends_with("+expected-digest")) || (fault == "asserted-relation-violated" && !consumer.starts_with("alu-assert-bool"));
            // a vector of the wrong length is refused by the setter whatever the circuit does with
            // the values: never "redundant" (a setter that truncated the vector would otherwise
            // reproduce the unfaulted witness and pass as redundant)
            let length_fault = matches!(fault.as_str(), "public-long" | "private-long" | "public-short" | "private-short");
            if out_rel.starts_with("run:Ok") && same_as_unfaulted && out_dev.as_deref() == Some(out_rel.as_str()) && !determined_conflict && !length_fault {
                rep.add(CaseResult::held(key, false).count(format!("redundant-input/{fault}"), 1));
                continue;
            }
            if out_rel.starts_with("run:Ok") && !may_succeed {
                rep.add(CaseResult::violated(key, format!("faulted-run-ok/{fault}/{consumer}"), mk_detail()));
                continue;
            }
            if out_rel.starts_with("panic:") {
                rep.add(CaseResult::violated(key, format!("panic/{fault}/{consumer}"), mk_detail()));
                continue;
            }
            // the scenario could not even be built by the other profile's builder (a debug
            // assertion of the *builder*): not a statement about executing the circuit
            if let Some(site) = dev.get(idx).and_then(|d| d.get("__build_panic")) {
                rep.add(CaseResult::inconclusive(key, format!("scenario not buildable in the dev profile (builder panic at {site})")));
                continue;
            }
            match &out_dev {
                Some(d) if d != out_rel => {
                    rep.add(CaseResult::violated(key, format!("profile-divergence/{fault}/{consumer}"), mk_detail()));
                }
                Some(_) => rep.add(CaseResult::held(key, true).count(format!("fault/{fault}"), 1)),
                None if dev_err.is_some() => rep.add(CaseResult::inconclusive(key, "no dev outcome")),
                None => rep.add(CaseResult::violated(key, format!("dev-outcome-missing/{fault}/{consumer}"), mk_detail())),
            }
        }
    }
    rep.add_sample(json!({"scenario": 0, "consumer": rel.first().map(|r| r.1.clone()), "outcomes": rel.first().map(|r| r.2.clone())}));
    // Miri sample (thorough tier, or `--miri N`)
    let miri_n: usize = args.extra.get("miri").and_then(|s| s.parse().ok()).unwrap_or(args.tier.pick(8, 64));
    if miri_n > 0 {
        let mut cmd = Command::new("cargo");
        cmd.current_dir(exe.parent().unwrap().parent().unwrap().parent().unwrap())
            .env("MIRIFLAGS", "-Zmiri-disable-isolation")
            .env("CARGO_PROFILE_DEV_DEBUG_ASSERTIONS", "false")
            .env("CARGO_TARGET_DIR", exe.parent().unwrap().parent().unwrap().join("miri"))
            .args(["+nightly", "miri", "run", "--offline", "--bin", "c19", "--", "--worker", "1", "--skip-goldilocks", "1", "--seed", &seed.to_string(), "--from", "0", "--to", &miri_n.to_string()]);
        match run_worker_binary(&mut cmd) {
            Ok(m) => {
                rep.bump("miri-scenarios-executed", m.len() as u64);
                for (idx, outs) in m {
                    for (fault, o) in outs {
                        let r = rel.iter().find(|r| r.0 == idx).and_then(|r| r.2.get(&fault));
                        if r.is_some_and(|r| *r != o) {
                            rep.add(CaseResult::violated(
                                format!("miri:{idx}:{fault}"),
                                format!("profile-divergence-miri/{fault}"),
                                json!({"seed": seed, "idx": idx, "fault": fault, "release": r, "miri": o}),
                            ));
                        } else {
                            rep.add(CaseResult::held(format!("miri:{idx}:{fault}"), true).count("miri-agreed", 1));
                        }
                    }
                }
            }
            Err(e) if e.contains("Undefined Behavior") => {
                rep.add(CaseResult::violated("miri", "miri-undefined-behaviour", json!({"seed": seed, "stderr": e})));
            }
            Err(e) => rep.add(CaseResult::inconclusive("miri", format!("miri run failed: {e}"))),
        }
    }
    // valgrind memcheck sample of the optimized binary itself (thorough tier, or `--memcheck N`):
    // covers the Goldilocks scenarios Miri has to skip and the code the optimizer actually emitted.
    // Memcheck sees heap out-of-bounds and uninitialised-value use only; reading the payload of a
    // `None` through `unwrap_unchecked` is invisible to it (that is what the Miri sample is for).
    let vg_n: usize = args.extra.get("memcheck").and_then(|s| s.parse().ok()).unwrap_or(args.tier.pick(0, 256));
    if vg_n > 0 {
        let shards = args.threads.clamp(1, 16);
        let per = vg_n.div_ceil(shards);
        let results: Vec<Result<BTreeMap<usize, BTreeMap<String, String>>, String>> = std::thread::scope(|s| {
            let hs: Vec<_> = (0..shards)
                .map(|k| {
                    let exe = exe.clone();
                    s.spawn(move || {
                        let (a, b) = (k * per, ((k + 1) * per).min(vg_n));
                        if a >= b {
                            return Ok(BTreeMap::new());
                        }
                        run_worker_binary(Command::new("valgrind").args(["-q", "--error-exitcode=97"]).arg(&exe).args([
                            "--worker", "1", "--seed", &seed.to_string(), "--from", &a.to_string(), "--to", &b.to_string(),
                        ]))
                    })
                })
                .collect();
            hs.into_iter().map(|h| h.join().unwrap()).collect()
        });
        for r in results {
            match r {
                Ok(m) => {
                    rep.bump("memcheck-scenarios-executed", m.len() as u64);
                    for (idx, outs) in m {
                        for (fault, o) in outs {
                            let r = rel.iter().find(|r| r.0 == idx).and_then(|r| r.2.get(&fault));
                            if r.is_some_and(|r| *r != o) {
                                rep.add(CaseResult::violated(
                                    format!("memcheck:{idx}:{fault}"),
                                    format!("profile-divergence-memcheck/{fault}"),
                                    json!({"seed": seed, "idx": idx, "fault": fault, "release": r, "memcheck": o}),
                                ));
                            } else {
                                rep.add(CaseResult::held(format!("memcheck:{idx}:{fault}"), true).count("memcheck-agreed", 1));
                            }
                        }
                    }
                }
                Err(e) if e.contains("Some(97)") => {
                    rep.add(CaseResult::violated("memcheck", "memcheck-error", json!({"seed": seed, "stderr": e})));
                }
                Err(e) => rep.add(CaseResult::inconclusive("memcheck", format!("valgrind run failed: {e}"))),
            }
        }
    }
    rep.finish(args.tier.pick(800, 20_000));
}
