//! C02LIB — second stream of C02 ("compilation preserves the value of every expression") and
//! C03 ("compilation never drops an asserted relation") over LIBRARY-BUILT circuits.
//!
//! The generated-program monitors (`c02.rs`, `c03.rs`) only see programs of a few dozen statements.
//! This monitor runs the repository's own circuit-building code — the recursive STARK verifiers of
//! every shape of the C01 kit (uni-STARK / batch-STARK / circuit-prover batch proofs over six
//! configurations), in-circuit Fiat-Shamir challenger histories (generator of `c05.rs`) and FRI-only
//! PCS verifiers with varied FRI parameters — with a builder the monitor controls, takes
//! `CircuitBuilder::verif_snapshot()` immediately before `build()`, compiles, runs the circuit on
//! the honest inputs (must be `Ok`) and reads the complete witness.
//!
//! * C02 oracle `lib-consistency`: every node of the source expression graph is re-evaluated from
//!   the witness values of its operand nodes (through `Circuit::expr_to_widx`) with native field
//!   arithmetic; every pending `connect` pair must hold equal values; every recompose call must
//!   hold `out == sum coeff_i * basis_i`.
//! * C03 oracle `lib-free-slots`: every witness slot no op relation refers to
//!   (`opsem::relation_slots`) gets a random value (all op relations still hold by construction),
//!   dead fused products are settled (`opsem::settle_dead_products`) and the same node relations
//!   are re-checked: a failing node is a source relation that only the honest witness generator
//!   upheld. Three random fillings per circuit. (On the pinned tree the only interpreted source
//!   nodes sitting on such slots are fused products, which are settled — the evidence counters
//!   `lib-source-nodes-on-free-slots/*` and `lib-free-slot-class/*` say so; the check fires when a
//!   compiler change leaves an expression on a slot nothing refers to.)
//! * C03 oracle `lib-carried` (keys `C03:libcarry:..`, signature `lib-uncarried-relation/..`):
//!   every interpreted source relation must be carried by an emitted op relation on the same
//!   witness slots, up to the implication-preserving rewrites the compiler performs (see
//!   `check_carried`). This is what has power on verifier circuits, where every input is pinned by
//!   Merkle / transcript checks and no counter-assignment can be reached by perturbation.
//! * An honest, natively accepted input on which `CircuitRunner::run` fails is reported under C02
//!   (`lib-honest-run-failed/<error>/<kind>`): builder-level folding / CSE errors are invisible in
//!   the snapshot (the graph is already wrong) and show up exactly there.
//!
//! Not registered on its own: `--emit C02|C03` prints the `CaseResult`s of that property as
//! `R <json>` lines (the format of `util::run_cases_isolated` children) and exits 0; without
//! `--emit` it is a normal monitor named "C02LIB" for manual use (`--shape <substr>`,
//! `--streams kit,challenger,fri`, `--replay file`).

#![allow(dead_code, clippy::type_complexity, clippy::too_many_arguments)]

#[path = "c01/kit.rs"]
mod kit;
#[macro_use]
#[path = "c05.rs"]
mod c05;

use std::collections::BTreeMap;

use c05::*;
use kit::airs::TAir;
use kit::{FriSc, Shape};
use p3_circuit::builder::VerifSnapshot;
use p3_circuit::ops::NpoTypeId;
use p3_circuit::{AluOpKind, Circuit, CircuitBuilder, Expr, ExprId, Op, WitnessId};
use p3_field::{BasedVectorSpace, ExtensionField, PrimeCharacteristicRing, PrimeField64};
use p3r_verif::fields::Setup;
use p3r_verif::opsem;
use p3r_verif::util::*;
use rand::RngExt;
use rand::rngs::SmallRng;
use serde_json::{Value, json};

const FILLINGS: u64 = 3;
const MAX_FAILS: usize = 64;

// ------------------------------------------------------------------------------------------
// The monitored object: one library-built circuit with its source snapshot and honest witness
// ------------------------------------------------------------------------------------------

pub struct Lib<EF> {
    /// unique name of the circuit (shape name / history key / FRI parameter key)
    pub name: String,
    /// "uni" | "batch" | "circuit-batch" | "challenger" | "fri"
    pub kind: &'static str,
    /// what is needed to rebuild exactly this circuit (goes into violation details)
    pub how: Value,
    pub snap: VerifSnapshot<EF>,
    pub circuit: Circuit<EF>,
    pub witness: Vec<EF>,
    pub pubs: Vec<EF>,
    pub privs: Vec<EF>,
}

fn read_witness<EF: Copy>(circuit: &Circuit<EF>, traces: &p3_circuit::Traces<EF>) -> Result<Vec<EF>, String> {
    (0..circuit.witness_count)
        .map(|i| {
            traces
                .witness_trace
                .get_value(WitnessId(i))
                .copied()
                .ok_or_else(|| format!("witness trace has no slot {i}"))
        })
        .collect()
}

fn node_kind<F>(e: &Expr<F>) -> &'static str {
    match e {
        Expr::Const(_) => "const",
        Expr::Public(_) => "public",
        Expr::PrivateInput(_) => "private",
        Expr::Add { .. } => "add",
        Expr::Sub { .. } => "sub",
        Expr::Mul { .. } => "mul",
        Expr::Div { .. } => "div",
        Expr::HornerAcc { .. } => "horner",
        Expr::BoolCheck { .. } => "bool_check",
        Expr::MulAdd { .. } => "mul_add",
        Expr::NonPrimitiveCall { .. } => "npo_call",
        Expr::NonPrimitiveOutput { .. } => "npo_output",
    }
}

fn coeffs<F: PrimeField64, EF: BasedVectorSpace<F>>(e: &EF) -> Vec<u64> {
    e.as_basis_coefficients_slice().iter().map(|c| c.as_canonical_u64()).collect()
}

fn rand_ef<F: PrimeField64, EF: BasedVectorSpace<F>>(rng: &mut SmallRng) -> EF {
    let v: Vec<F> = (0..EF::DIMENSION).map(|_| F::from_u64(rng.random::<u64>() % F::ORDER_U64)).collect();
    EF::from_basis_coefficients_slice(&v).expect("coefficient vector of the right length")
}

#[derive(Clone, Debug)]
pub struct Fail {
    /// node kind, "connect" or "recompose_call"
    pub kind: &'static str,
    /// true: an expression (or one of its operands) has no witness slot at all
    pub no_slot: bool,
    /// node index / connect index / call index
    pub index: usize,
    pub text: String,
    /// (role, slot, value) of everything the relation reads
    pub slots: Vec<(String, u32, Vec<u64>)>,
}

/// Re-evaluate every node / connect / recompose call of the source snapshot on the assignment `w`.
///
/// `free_inputs`: private inputs carry no relation (C03: they are existential in the source
/// program too); otherwise `w == private_inputs[pos]` is checked (C02: value of the expression).
fn check_source<F: PrimeField64, EF: ExtensionField<F>>(
    lib: &Lib<EF>,
    w: &[EF],
    free_inputs: bool,
    counts: &mut BTreeMap<&'static str, u64>,
) -> Vec<Fail> {
    let c = &lib.circuit;
    let slot = |e: ExprId| -> Option<u32> { c.expr_to_widx.get(&e).map(|x| x.0) };
    let mut fails: Vec<Fail> = vec![];
    let mut push = |f: Fail| {
        if fails.len() < MAX_FAILS {
            fails.push(f);
        }
    };
    for (i, node) in lib.snap.nodes.iter().enumerate() {
        let kind = node_kind(node);
        if matches!(node, Expr::NonPrimitiveCall { .. }) {
            continue;
        }
        let me = ExprId(i as u32);
        // resolve the node's own slot and the slots of its operands
        let operands: Vec<(&'static str, ExprId)> = match node {
            Expr::Add { lhs, rhs } | Expr::Sub { lhs, rhs } | Expr::Mul { lhs, rhs } | Expr::Div { lhs, rhs } => {
                vec![("lhs", *lhs), ("rhs", *rhs)]
            }
            Expr::HornerAcc { acc, alpha, p_at_z, p_at_x } => {
                vec![("acc", *acc), ("alpha", *alpha), ("p_at_z", *p_at_z), ("p_at_x", *p_at_x)]
            }
            Expr::BoolCheck { val } => vec![("val", *val)],
            Expr::MulAdd { a, b, c } => vec![("a", *a), ("b", *b), ("c", *c)],
            _ => vec![],
        };
        let Some(out) = slot(me) else {
            push(Fail { kind, no_slot: true, index: i, text: format!("{node:?} has no witness slot"), slots: vec![] });
            continue;
        };
        let mut vals: Vec<EF> = Vec::with_capacity(operands.len());
        let mut sl: Vec<(String, u32, Vec<u64>)> = vec![("out".into(), out, coeffs::<F, EF>(&w[out as usize]))];
        let mut missing = false;
        for (role, e) in &operands {
            match slot(*e) {
                Some(s) => {
                    vals.push(w[s as usize]);
                    sl.push((role.to_string(), s, coeffs::<F, EF>(&w[s as usize])));
                }
                None => {
                    push(Fail {
                        kind,
                        no_slot: true,
                        index: i,
                        text: format!("operand {role} ({e:?}) of {node:?} has no witness slot"),
                        slots: vec![],
                    });
                    missing = true;
                }
            }
        }
        if missing {
            continue;
        }
        let o = w[out as usize];
        let ok = match node {
            Expr::Const(v) => o == *v,
            Expr::Public(pos) => match lib.pubs.get(*pos) {
                Some(p) => o == *p,
                None => false,
            },
            Expr::PrivateInput(pos) => {
                if free_inputs {
                    continue;
                }
                match lib.privs.get(*pos) {
                    Some(p) => o == *p,
                    None => false,
                }
            }
            Expr::Add { .. } => o == vals[0] + vals[1],
            Expr::Sub { .. } => o == vals[0] - vals[1],
            Expr::Mul { .. } => o == vals[0] * vals[1],
            Expr::Div { .. } => o * vals[1] == vals[0],
            Expr::HornerAcc { .. } => o == vals[0] * vals[1] + vals[2] - vals[3],
            Expr::BoolCheck { .. } => (vals[0] == EF::ZERO || vals[0] == EF::ONE) && o == vals[0],
            Expr::MulAdd { .. } => o == vals[0] * vals[1] + vals[2],
            Expr::NonPrimitiveOutput { .. } => {
                // uninterpreted (recompose outputs are checked through the call list below)
                *counts.entry("npo_output(skipped)").or_default() += 1;
                continue;
            }
            Expr::NonPrimitiveCall { .. } => continue,
        };
        *counts.entry(kind).or_default() += 1;
        if !ok {
            push(Fail { kind, no_slot: false, index: i, text: format!("{node:?}"), slots: sl });
        }
    }
    for (k, (a, b)) in lib.snap.connects.iter().enumerate() {
        match (slot(*a), slot(*b)) {
            (Some(x), Some(y)) => {
                *counts.entry("connect").or_default() += 1;
                if w[x as usize] != w[y as usize] {
                    push(Fail {
                        kind: "connect",
                        no_slot: false,
                        index: k,
                        text: format!("connect({a:?}, {b:?})"),
                        slots: vec![
                            ("a".into(), x, coeffs::<F, EF>(&w[x as usize])),
                            ("b".into(), y, coeffs::<F, EF>(&w[y as usize])),
                        ],
                    });
                }
            }
            _ => push(Fail {
                kind: "connect",
                no_slot: true,
                index: k,
                text: format!("connect({a:?}, {b:?}): an end has no witness slot"),
                slots: vec![],
            }),
        }
    }
    for (k, (_op_id, ty, ins, outs)) in lib.snap.npo_calls.iter().enumerate() {
        if *ty != NpoTypeId::recompose() && *ty != NpoTypeId::recompose_with_coeff_lookups() {
            continue;
        }
        let cs: Vec<ExprId> = ins.iter().flatten().copied().collect();
        let Some(out_e) = outs.iter().flatten().next().copied() else { continue };
        if cs.len() != EF::DIMENSION {
            continue;
        }
        let cs_s: Option<Vec<u32>> = cs.iter().map(|e| slot(*e)).collect();
        match (cs_s, slot(out_e)) {
            (Some(cs_s), Some(os)) => {
                *counts.entry("recompose_call").or_default() += 1;
                let mut acc = EF::ZERO;
                for (j, s) in cs_s.iter().enumerate() {
                    acc += w[*s as usize] * EF::ith_basis_element(j).expect("basis element");
                }
                if acc != w[os as usize] {
                    let mut sl = vec![("out".to_string(), os, coeffs::<F, EF>(&w[os as usize]))];
                    for (j, s) in cs_s.iter().enumerate() {
                        sl.push((format!("coeff{j}"), *s, coeffs::<F, EF>(&w[*s as usize])));
                    }
                    push(Fail { kind: "recompose_call", no_slot: false, index: k, text: format!("{ty:?} call #{k}"), slots: sl });
                }
            }
            _ => push(Fail {
                kind: "recompose_call",
                no_slot: true,
                index: k,
                text: format!("{ty:?} call #{k}: an operand has no witness slot"),
                slots: vec![],
            }),
        }
    }
    fails
}

/// Independent re-check of the primitive op relations (Const / Public / ALU) on `w`; used only to
/// confirm that a free-slot filling really leaves every op relation intact (harness self-check).
fn primitive_ops_hold<EF: p3_field::Field>(c: &Circuit<EF>, w: &[EF], pubs: &[EF]) -> Result<u64, String> {
    let g = |id: &WitnessId| w[id.0 as usize];
    let mut n = 0u64;
    for (i, op) in c.ops.iter().enumerate() {
        let ok = match op {
            Op::Const { out, val } => g(out) == *val,
            Op::Public { out, public_pos } => pubs.get(*public_pos).is_some_and(|p| g(out) == *p),
            Op::Alu { kind, a, b, c: cc, out, intermediate_out } => match kind {
                AluOpKind::Add => g(a) + g(b) == g(out),
                AluOpKind::Mul => g(a) * g(b) == g(out),
                AluOpKind::BoolCheck => (g(a) == EF::ZERO || g(a) == EF::ONE) && g(out) == g(a),
                AluOpKind::MulAdd => g(a) * g(b) + cc.as_ref().map(g).unwrap_or(EF::ZERO) == g(out),
                AluOpKind::HornerAcc => match (cc, intermediate_out) {
                    (Some(cc), Some(acc)) => g(acc) * g(b) + g(cc) - g(a) == g(out),
                    _ => return Err(format!("op {i}: HornerAcc without c / accumulator")),
                },
            },
            _ => continue,
        };
        n += 1;
        if !ok {
            return Err(format!("op {i} ({}) does not hold", opsem::op_text(op)));
        }
    }
    Ok(n)
}

/// C03 sub-oracle `lib-carried`: the compile run's output is matched against its input. Every
/// interpreted source relation (node definition, connect) must be *carried* by an emitted op
/// relation over the same witness slots (through `expr_to_widx`, i.e. after connect sharing and
/// de-duplication), up to the transformations that preserve implication:
/// commutativity; `sub` / `div` emitted as the add / mul solved for another operand; a product and
/// the sum reading it fused into one `MulAdd` whose product slot no relation refers to (the source
/// is existential in it) or whose product is still carried by a `Mul` op; `connect` = same slot.
/// A relation that is not carried is enforced by nothing the proof system sees (on verifier
/// circuits a counter-assignment cannot be exhibited by local perturbation: every input is bound
/// by Merkle / transcript checks, so this is decided on the op list itself).
fn check_carried<F: PrimeField64, EF: ExtensionField<F>>(
    lib: &Lib<EF>,
    live: &[bool],
    counts: &mut BTreeMap<String, u64>,
) -> Vec<Fail> {
    use std::collections::{HashMap, HashSet};
    let c = &lib.circuit;
    let pair = |x: u32, y: u32| if x <= y { (x, y) } else { (y, x) };
    let mut add_ops: HashSet<(u32, u32, u32)> = HashSet::new();
    let mut mul_ops: HashSet<(u32, u32, u32)> = HashSet::new();
    let mut add_by_out: HashMap<u32, Vec<(u32, u32)>> = HashMap::new();
    let mut muladd_by_out: HashMap<u32, Vec<(u32, u32, u32, Option<u32>)>> = HashMap::new();
    let mut muladd_by_io: HashMap<u32, Vec<(u32, u32)>> = HashMap::new();
    let mut horner_ops: HashSet<(u32, u32, u32, u32, u32)> = HashSet::new();
    let mut bool_ops: HashSet<(u32, u32)> = HashSet::new();
    let mut const_ops: HashMap<u32, Vec<EF>> = HashMap::new();
    let mut public_ops: HashSet<(u32, usize)> = HashSet::new();
    for op in &c.ops {
        match op {
            Op::Const { out, val } => const_ops.entry(out.0).or_default().push(*val),
            Op::Public { out, public_pos } => {
                public_ops.insert((out.0, *public_pos));
            }
            Op::Alu { kind, a, b, c: cc, out, intermediate_out } => match kind {
                AluOpKind::Add => {
                    let (x, y) = pair(a.0, b.0);
                    add_ops.insert((x, y, out.0));
                    add_by_out.entry(out.0).or_default().push((x, y));
                }
                AluOpKind::Mul => {
                    let (x, y) = pair(a.0, b.0);
                    mul_ops.insert((x, y, out.0));
                }
                AluOpKind::MulAdd => {
                    let (x, y) = pair(a.0, b.0);
                    if let Some(cc) = cc {
                        muladd_by_out.entry(out.0).or_default().push((x, y, cc.0, intermediate_out.map(|i| i.0)));
                    }
                    if let Some(io) = intermediate_out {
                        muladd_by_io.entry(io.0).or_default().push((x, y));
                    }
                }
                AluOpKind::HornerAcc => {
                    if let (Some(cc), Some(acc)) = (cc, intermediate_out) {
                        // out = acc * b + c - a
                        horner_ops.insert((acc.0, b.0, cc.0, a.0, out.0));
                    }
                }
                AluOpKind::BoolCheck => {
                    bool_ops.insert((a.0, out.0));
                }
            },
            _ => {}
        }
    }
    let slot = |e: ExprId| -> Option<u32> { c.expr_to_widx.get(&e).map(|x| x.0) };
    let is_live = |s: u32| live.get(s as usize).copied().unwrap_or(true);
    let mut fails = vec![];
    let mut bump = |k: String| *counts.entry(k).or_default() += 1;
    // is `o = x + y` carried? directly, or by a fused MulAdd whose product slot (x or y) is
    // existential (no relation refers to it) or still carried by a Mul op
    let sum_carried = |o: u32, x: u32, y: u32| -> Option<&'static str> {
        let (p, q) = pair(x, y);
        if add_ops.contains(&(p, q, o)) {
            return Some("add-op");
        }
        let fused = muladd_by_out.get(&o).is_some_and(|v| {
            v.iter().any(|(a, b, cc, io)| {
                let Some(t) = io else { return false };
                let shape = (*cc == y && *t == x) || (*cc == x && *t == y);
                shape && (!is_live(*t) || mul_ops.contains(&(*a, *b, *t)))
            })
        });
        fused.then_some("fused-mul-add")
    };
    for (i, node) in lib.snap.nodes.iter().enumerate() {
        let kind = node_kind(node);
        let Some(o) = slot(ExprId(i as u32)) else { continue };
        // (carried, via) — operands without a slot are reported by the consistency check
        let verdict: Option<(bool, &'static str)> = (|| {
            Some(match node {
                Expr::Const(v) => (const_ops.get(&o).is_some_and(|vs| vs.iter().any(|x| x == v)), "const-op"),
                Expr::Public(pos) => (public_ops.contains(&(o, *pos)), "public-op"),
                Expr::Add { lhs, rhs } => {
                    let (l, r) = (slot(*lhs)?, slot(*rhs)?);
                    match sum_carried(o, l, r) {
                        Some(via) => (true, via),
                        None => (false, "-"),
                    }
                }
                Expr::Sub { lhs, rhs } => {
                    let (l, r) = (slot(*lhs)?, slot(*rhs)?);
                    let (x, y) = pair(o, r);
                    if add_ops.contains(&(x, y, l)) {
                        (true, "add-op-solved-for-operand")
                    } else if let Some(Expr::Const(cv)) = lib.snap.nodes.get(rhs.0 as usize) {
                        // `x - c` emitted as `x + (-c)` with a synthetic constant slot k = -c
                        let neg = -*cv;
                        let is_neg_const = |k: u32| const_ops.get(&k).is_some_and(|vs| vs.iter().any(|v| *v == neg));
                        let mut via = None;
                        for (a, b) in add_by_out.get(&o).into_iter().flatten() {
                            let k = if *a == l { *b } else if *b == l { *a } else { continue };
                            if is_neg_const(k) {
                                via = Some("add-op-with-negated-constant");
                            }
                        }
                        for (_, _, cc, io) in muladd_by_out.get(&o).into_iter().flatten() {
                            if *io == Some(l) && is_neg_const(*cc) && sum_carried(o, l, *cc).is_some() {
                                via = Some("fused-mul-add-with-negated-constant");
                            }
                        }
                        (via.is_some(), via.unwrap_or("-"))
                    } else {
                        (false, "-")
                    }
                }
                Expr::Mul { lhs, rhs } => {
                    let (l, r) = (slot(*lhs)?, slot(*rhs)?);
                    let (x, y) = pair(l, r);
                    if mul_ops.contains(&(x, y, o)) {
                        (true, "mul-op")
                    } else {
                        let fused = !is_live(o) && muladd_by_io.get(&o).is_some_and(|v| v.iter().any(|p| *p == (x, y)));
                        (fused, "fused-mul-add")
                    }
                }
                Expr::Div { lhs, rhs } => {
                    let (l, r) = (slot(*lhs)?, slot(*rhs)?);
                    let (x, y) = pair(o, r);
                    (mul_ops.contains(&(x, y, l)), "mul-op-solved-for-operand")
                }
                Expr::MulAdd { a, b, c: cc } => {
                    let (a, b, cc) = (slot(*a)?, slot(*b)?, slot(*cc)?);
                    let (x, y) = pair(a, b);
                    (muladd_by_out.get(&o).is_some_and(|v| v.iter().any(|(p, q, r, _)| (*p, *q, *r) == (x, y, cc))), "mul-add-op")
                }
                Expr::HornerAcc { acc, alpha, p_at_z, p_at_x } => {
                    let k = (slot(*acc)?, slot(*alpha)?, slot(*p_at_z)?, slot(*p_at_x)?, o);
                    (horner_ops.contains(&k), "horner-op")
                }
                Expr::BoolCheck { val } => (bool_ops.contains(&(slot(*val)?, o)), "bool-check-op"),
                Expr::PrivateInput(_) | Expr::NonPrimitiveCall { .. } | Expr::NonPrimitiveOutput { .. } => return None,
            })
        })();
        let Some((carried, via)) = verdict else { continue };
        if carried {
            bump(format!("{kind}/{via}"));
        } else if fails.len() < MAX_FAILS {
            let mut sl = vec![("out".to_string(), o, coeffs::<F, EF>(&lib.witness[o as usize]))];
            let ops_on_out: Vec<String> =
                c.ops.iter().filter(|op| op_mentions(op, o)).take(6).map(|op| opsem::op_text(op)).collect();
            sl.push((format!("ops mentioning the result slot: {ops_on_out:?}; slot referred to by a relation: {}", is_live(o)), o, vec![]));
            fails.push(Fail { kind, no_slot: false, index: i, text: format!("{node:?}"), slots: sl });
        }
    }
    for (k, (a, b)) in lib.snap.connects.iter().enumerate() {
        if let (Some(x), Some(y)) = (slot(*a), slot(*b)) {
            if x == y {
                bump("connect/same-slot".into());
            } else if fails.len() < MAX_FAILS {
                fails.push(Fail {
                    kind: "connect",
                    no_slot: false,
                    index: k,
                    text: format!("connect({a:?}, {b:?}) on two different slots"),
                    slots: vec![("a".into(), x, vec![]), ("b".into(), y, vec![])],
                });
            }
        }
    }
    fails
}

fn op_mentions<EF>(op: &Op<EF>, s: u32) -> bool {
    match op {
        Op::Const { out, .. } | Op::Public { out, .. } => out.0 == s,
        Op::Alu { a, b, c, out, intermediate_out, .. } => {
            a.0 == s || b.0 == s || out.0 == s || c.is_some_and(|x| x.0 == s) || intermediate_out.is_some_and(|x| x.0 == s)
        }
        Op::Hint { inputs, outputs, .. } => inputs.iter().chain(outputs.iter()).any(|x| x.0 == s),
        Op::NonPrimitiveOpWithExecutor { inputs, outputs, .. } => inputs.iter().chain(outputs.iter()).flatten().any(|x| x.0 == s),
    }
}

fn fail_json(f: &Fail) -> Value {
    json!({"what": f.kind, "index": f.index, "expr": f.text,
        "slots": f.slots.iter().map(|(r, s, v)| json!({"role": r, "slot": s, "value": v})).collect::<Vec<_>>()})
}

/// Group failures by signature: one violated case per signature and circuit.
fn violations(prop: &str, lib_name: &str, key: &str, fails: &[Fail], sig_of: &dyn Fn(&Fail) -> String, how: &Value, extra: Value) -> Vec<CaseResult> {
    let mut by_sig: BTreeMap<String, Vec<&Fail>> = BTreeMap::new();
    for f in fails {
        by_sig.entry(sig_of(f)).or_default().push(f);
    }
    by_sig
        .into_iter()
        .map(|(sig, fs)| {
            CaseResult::violated(
                format!("{prop}:{key}:{sig}"),
                sig,
                json!({"circuit": lib_name, "how": how, "failing": fs.len(), "capped_at": MAX_FAILS,
                    "first": fs.iter().take(4).map(|f| fail_json(f)).collect::<Vec<_>>(), "extra": extra}),
            )
        })
        .collect()
}

/// Both oracles on one circuit. Keys are prefixed with the property they belong to.
fn analyse<F: PrimeField64, EF: ExtensionField<F>>(lib: &Lib<EF>, seed: u64) -> Vec<CaseResult> {
    let mut out = vec![];
    let c = &lib.circuit;
    let kind = lib.kind;
    // ---- C02: lib-consistency on the honest witness ----
    let mut counts = BTreeMap::new();
    let fails = check_source::<F, EF>(lib, &lib.witness, false, &mut counts);
    let checked: u64 = counts.iter().filter(|(k, _)| !k.contains("skipped")).map(|(_, n)| *n).sum();
    let n_fused = c.ops.iter().filter(|op| matches!(op, Op::Alu { kind: AluOpKind::MulAdd, intermediate_out: Some(_), .. })).count() as u64;
    let n_rewrite = c.witness_rewrite.as_ref().map_or(0, |m| m.len()) as u64;
    let mut per_slot = std::collections::HashMap::<u32, u32>::new();
    for w in c.expr_to_widx.values() {
        *per_slot.entry(w.0).or_default() += 1;
    }
    let n_shared = per_slot.values().filter(|n| **n > 1).count() as u64;
    let stats = json!({"circuit": lib.name, "kind": kind, "nodes": lib.snap.nodes.len(), "connects": lib.snap.connects.len(),
        "npo_calls": lib.snap.npo_calls.len(), "ops": c.ops.len(), "witness_slots": c.witness_count,
        "fused_mul_adds": n_fused, "dedup_rewrites": n_rewrite, "slots_shared_by_several_exprs": n_shared,
        "publics": lib.pubs.len(), "privates": lib.privs.len()});
    if fails.is_empty() {
        let mut r = CaseResult::held(format!("C02:lib:{}", lib.name), checked > 0)
            .count("lib-circuits", 1)
            .count(format!("lib-shape-kind/{kind}"), 1)
            .count("lib-nodes-total", lib.snap.nodes.len() as u64)
            .count("lib-ops-total", c.ops.len() as u64)
            .count("lib-fused-mul-adds", n_fused)
            .count("lib-dedup-rewrites", n_rewrite)
            .count("lib-slots-shared-by-several-exprs", n_shared)
            .with_sample(stats.clone());
        for (k, n) in &counts {
            r = r.count(format!("lib-checked/{k}"), *n);
        }
        out.push(r);
    } else {
        let sig = |f: &Fail| {
            if f.no_slot { format!("lib-no-slot/{}", f.kind) } else { format!("lib-value-mismatch/{}/{kind}", f.kind) }
        };
        out.extend(violations("C02", &lib.name, &format!("lib:{}", lib.name), &fails, &sig, &lib.how, stats.clone()));
    }
    // ---- C03: lib-free-slots ----
    if !fails.is_empty() {
        out.push(CaseResult::inconclusive(
            format!("C03:lib:{}", lib.name),
            "the honest witness already violates a source relation (reported under C02)",
        ));
        return out;
    }
    let live = opsem::relation_slots(c);
    // classification of the free slots (evidence only)
    let mut class: Vec<&'static str> = vec!["other"; live.len()];
    for w in &c.private_input_rows {
        class[w.0 as usize] = "private-input";
    }
    for op in &c.ops {
        match op {
            Op::Hint { outputs, .. } => outputs.iter().for_each(|o| class[o.0 as usize] = "hint-output"),
            Op::NonPrimitiveOpWithExecutor { outputs, .. } => {
                outputs.iter().flatten().for_each(|o| class[o.0 as usize] = "npo-unexposed-output")
            }
            Op::Alu { kind: AluOpKind::MulAdd, intermediate_out: Some(io), .. } => class[io.0 as usize] = "fused-product",
            _ => {}
        }
    }
    if let Some(rw) = &c.witness_rewrite {
        for dup in rw.keys() {
            if let Some(x) = class.get_mut(dup.0 as usize) {
                *x = "dedup-duplicate";
            }
        }
    }
    // source nodes sitting on a free slot: those are the relations this check can observe
    let mut nodes_on_free: BTreeMap<&'static str, u64> = BTreeMap::new();
    for (i, node) in lib.snap.nodes.iter().enumerate() {
        if let Some(s) = c.expr_to_widx.get(&ExprId(i as u32)) {
            if !live[s.0 as usize] {
                *nodes_on_free.entry(node_kind(node)).or_default() += 1;
            }
        }
    }
    // ---- C03: lib-carried (every source relation is carried by an emitted op relation) ----
    {
        let mut carried: BTreeMap<String, u64> = BTreeMap::new();
        let uncarried = check_carried::<F, EF>(lib, &live, &mut carried);
        let total: u64 = carried.values().sum();
        if uncarried.is_empty() {
            let mut r = CaseResult::held(format!("C03:libcarry:{}", lib.name), total > 0)
                .count("lib-carried-circuits", 1)
                .count(format!("lib-shape-kind/{kind}"), 1);
            for (k, n) in &carried {
                r = r.count(format!("lib-carried/{k}"), *n);
            }
            out.push(r);
        } else {
            let sig = |f: &Fail| format!("lib-uncarried-relation/{}/{kind}", f.kind);
            out.extend(violations(
                "C03",
                &lib.name,
                &format!("libcarry:{}", lib.name),
                &uncarried,
                &sig,
                &lib.how,
                json!({"oracle": "lib-carried: no emitted op relation carries this source relation on its witness slots", "stats": stats}),
            ));
        }
    }
    for k in 0..FILLINGS {
        let key = format!("C03:lib:{}:fill{k}", lib.name);
        let mut rng = case_rng(seed, &format!("c02lib-fill/{}", lib.name), k);
        let mut w = lib.witness.clone();
        let mut n_free = 0u64;
        let mut by_class: BTreeMap<&'static str, u64> = BTreeMap::new();
        for s in 0..w.len() {
            if !live[s] {
                w[s] = rand_ef::<F, EF>(&mut rng);
                n_free += 1;
                *by_class.entry(class[s]).or_default() += 1;
            }
        }
        let settled = opsem::settle_dead_products(c, &mut w) as u64;
        let rechecked = match primitive_ops_hold(c, &w, &lib.pubs) {
            Ok(n) => n,
            Err(e) => {
                out.push(CaseResult::inconclusive(key, format!("free-slot filling broke an op relation (harness): {e}")));
                continue;
            }
        };
        let mut cnt = BTreeMap::new();
        let fails = check_source::<F, EF>(lib, &w, true, &mut cnt);
        if fails.is_empty() {
            let mut r = CaseResult::held(key, n_free > 0)
                .count("lib-fillings", 1)
                .count("lib-free-slots-randomised", n_free)
                .count("lib-dead-products-settled", settled)
                .count("lib-op-relations-rechecked", rechecked)
                .count(format!("lib-shape-kind/{kind}"), 1);
            for (cl, n) in &by_class {
                r = r.count(format!("lib-free-slot-class/{cl}"), *n);
            }
            for (nk, n) in &nodes_on_free {
                r = r.count(format!("lib-source-nodes-on-free-slots/{nk}"), *n);
            }
            for (nk, n) in &cnt {
                r = r.count(format!("lib-rechecked/{nk}"), *n);
            }
            if k == 0 {
                r = r.with_sample(json!({"circuit": lib.name, "kind": kind, "witness_slots": c.witness_count,
                    "free_slots": n_free, "free_slot_classes": by_class, "dead_products_settled": settled,
                    "source_nodes_on_free_slots": nodes_on_free}));
            }
            out.push(r);
        } else {
            let sig = |f: &Fail| {
                if f.no_slot { format!("lib-no-slot/{}", f.kind) } else { format!("lib-dropped-relation/{}/{kind}", f.kind) }
            };
            out.extend(violations(
                "C03",
                &lib.name,
                &format!("lib:{}:fill{k}", lib.name),
                &fails,
                &sig,
                &lib.how,
                json!({"filling": k, "free_slots_randomised": n_free, "free_slot_classes": by_class,
                    "op_relations_rechecked_and_holding": rechecked, "stats": stats}),
            ));
        }
    }
    out
}

fn de<T: serde::de::DeserializeOwned>(b: &Value, key: &str) -> Result<T, String> {
    let v = b.get(key).cloned().unwrap_or(Value::Null);
    serde_json::from_value::<T>(v).map_err(|e| format!("{key}: {e}"))
}

// ------------------------------------------------------------------------------------------
// Stream 1: the verification circuits of the C01 kit's shapes
// ------------------------------------------------------------------------------------------

#[derive(Clone, Debug)]
enum KitSpec {
    Uni(TAir),
    Batch(Vec<TAir>),
    Circ(usize),
}

fn parse_air(label: &str) -> Option<TAir> {
    let num = |s: &str, p: &str| -> Option<usize> { s.strip_prefix(p)?.parse().ok() };
    let parts: Vec<&str> = label.split('-').collect();
    let air = match parts.as_slice() {
        ["mul", d, r, x, p] => TAir::Mul {
            degree: num(d, "d")? as u64,
            rows: num(r, "r")?,
            reps: num(x, "x")?,
            prep: match *p {
                "prep" => true,
                "noprep" => false,
                _ => return None,
            },
        },
        ["fib", r] => TAir::Fib { rows: num(r, "r")? },
        ["add", r] => TAir::Add { rows: num(r, "r")? },
        ["sub", r] => TAir::Sub { rows: num(r, "r")? },
        ["pv", r] => TAir::Pv { rows: num(r, "r")? },
        ["addrl", r] => TAir::AddRl { rows: num(r, "r")? },
        ["per", r] => TAir::Per { rows: num(r, "r")? },
        ["subrl", r] => TAir::SubRl { rows: num(r, "r")? },
        ["lk", r] => TAir::Lk { rows: num(r, "r")? },
        _ => return None,
    };
    (air.label() == label).then_some(air)
}

/// (spec, configuration name) from a kit shape name `<kind>/<airs>/<cfg>`.
fn parse_shape_name(name: &str) -> Option<(KitSpec, String)> {
    let parts: Vec<&str> = name.split('/').collect();
    if parts.len() != 3 {
        return None;
    }
    let spec = match parts[0] {
        "uni" => KitSpec::Uni(parse_air(parts[1])?),
        "batch" => KitSpec::Batch(parts[1].split('+').map(parse_air).collect::<Option<Vec<_>>>()?),
        "circuit-batch" => KitSpec::Circ(parts[1].strip_prefix("arith-n")?.parse().ok()?),
        _ => return None,
    };
    Some((spec, parts[2].to_string()))
}

/// Variant of the kit's compile path (`cfg_body.rs`: `UniCtx/BatchCtx/CircCtx::compile` + `run_inner`)
/// that keeps the builder in the monitor's hands so that the snapshot can be taken before `build()`.
macro_rules! kit_cfg {
    ($m:ident) => {
        pub mod $m {
            use super::super::*;
            use crate::kit::cfgs::$m as c;

            type F = c::F;
            type EF = c::Challenge;
            type LG = p3_lookup::logup::LogUpGadget;

            fn vparams(fri: &FriSc) -> p3_recursion::FriVerifierParams {
                p3_recursion::FriVerifierParams::with_mmcs(
                    fri.log_blowup,
                    fri.log_final_poly_len,
                    fri.commit_pow_bits,
                    fri.query_pow_bits,
                    c::perm_cfg(),
                )
            }

            fn honest_run(
                circuit: &Circuit<EF>,
                op_ids: &[p3_circuit::NonPrimitiveOpId],
                opening: &c::PcsProofT,
                pubs: &[EF],
                privs: &[EF],
            ) -> Result<Vec<EF>, String> {
                let mut runner = circuit.runner();
                runner.set_public_inputs(pubs).map_err(|e| format!("set_public_inputs: {e:?}"))?;
                runner.set_private_inputs(privs).map_err(|e| format!("set_private_inputs: {e:?}"))?;
                if !op_ids.is_empty() {
                    c::set_mmcs(&mut runner, op_ids, opening).map_err(|e| format!("mmcs private data: {e}"))?;
                }
                let traces = runner.run().map_err(|e| format!("honest run failed: {e:?}"))?;
                read_witness(circuit, &traces)
            }

            #[derive(serde::Deserialize)]
            struct MetaJ {
                matrix_index: usize,
                width: usize,
                degree_bits: usize,
            }
            #[derive(serde::Deserialize)]
            struct CommonJ {
                commitment: c::ComV,
                instances: Vec<Option<MetaJ>>,
                matrix_to_instance: Vec<usize>,
            }

            fn common_from(cj: Option<CommonJ>, lookups: Vec<p3_lookup::Lookups<F>>) -> p3_batch_stark::CommonData<c::SC> {
                p3_batch_stark::CommonData::new(
                    cj.map(|cj| p3_batch_stark::common::GlobalPreprocessed {
                        commitment: cj.commitment,
                        instances: cj
                            .instances
                            .into_iter()
                            .map(|m| {
                                m.map(|m| p3_batch_stark::common::PreprocessedInstanceMeta {
                                    matrix_index: m.matrix_index,
                                    width: m.width,
                                    degree_bits: m.degree_bits,
                                })
                            })
                            .collect(),
                        matrix_to_instance: cj.matrix_to_instance,
                    }),
                    lookups,
                )
            }

            fn uni(name: &str, air: TAir, b: &Value) -> Result<Lib<EF>, String> {
                let proof: p3_uni_stark::Proof<c::SC> = de(b, "proof")?;
                let pis: Vec<F> = de(b, "pis")?;
                let prep: Option<c::ComV> = de(b, "prep")?;
                let fri: FriSc = de(b, "fri")?;
                let mut cb = c::new_builder();
                let vi = p3_recursion::StarkVerifierInputsBuilder::<c::SC, c::Comm, c::InnerFri>::allocate(
                    &mut cb,
                    &proof,
                    prep.as_ref(),
                    pis.len(),
                );
                let config = c::make_config(&fri);
                let op_ids = p3_recursion::verify_p3_uni_proof_circuit::<
                    TAir,
                    c::SC,
                    c::Comm,
                    c::InputProofT,
                    c::InnerFri,
                    _,
                    { c::WIDTH },
                    { c::RATE },
                >(
                    &config,
                    &air,
                    &mut cb,
                    &vi.proof_targets,
                    &vi.air_public_targets,
                    &vi.preprocessed_commit,
                    &vparams(&fri),
                    c::perm_cfg(),
                )
                .map_err(|e| format!("verify_p3_uni_proof_circuit: {e:?}"))?;
                let snap = cb.verif_snapshot();
                let circuit = cb.build().map_err(|e| format!("build: {e:?}"))?;
                let (pubs, privs) = vi.pack_values(&pis, &proof, &prep);
                let witness = honest_run(&circuit, &op_ids, &proof.opening_proof, &pubs, &privs)?;
                Ok(Lib { name: name.into(), kind: "uni", how: json!({"stream": "kit", "shape": name}), snap, circuit, witness, pubs, privs })
            }

            fn batch(name: &str, airs: Vec<TAir>, b: &Value) -> Result<Lib<EF>, String> {
                let proof: p3_batch_stark::BatchProof<c::SC> = de(b, "proof")?;
                let pis: Vec<Vec<F>> = de(b, "pis")?;
                let cj: Option<CommonJ> = de(b, "common")?;
                let fri: FriSc = de(b, "fri")?;
                // verifier-side lookup contexts, derived from the AIRs alone
                let common = common_from(cj, c::kit_air_lookups(&airs));
                let counts: Vec<usize> = pis.iter().map(|v| v.len()).collect();
                if counts.len() != proof.opened_values.instances.len() {
                    return Err("public value list count != instance count".into());
                }
                let mut cb = c::new_builder();
                let vi = p3_recursion::BatchStarkVerifierInputsBuilder::<c::SC, c::Comm, c::InnerFri>::allocate(
                    &mut cb, &proof, &common, &counts,
                );
                let config = c::make_config(&fri);
                let op_ids = p3_recursion::verify_batch_circuit::<
                    TAir,
                    c::SC,
                    c::Comm,
                    c::InputProofT,
                    c::InnerFri,
                    LG,
                    _,
                    { c::WIDTH },
                    { c::RATE },
                >(
                    &config,
                    &airs,
                    &mut cb,
                    &vi.proof_targets,
                    &vi.air_public_targets,
                    &vparams(&fri),
                    &vi.common_data,
                    &LG::new(),
                    c::perm_cfg(),
                )
                .map_err(|e| format!("verify_batch_circuit: {e:?}"))?;
                let snap = cb.verif_snapshot();
                let circuit = cb.build().map_err(|e| format!("build: {e:?}"))?;
                let (pubs, privs) = vi.pack_values(&pis, &proof, &common);
                let witness = honest_run(&circuit, &op_ids, &proof.opening_proof, &pubs, &privs)?;
                Ok(Lib { name: name.into(), kind: "batch", how: json!({"stream": "kit", "shape": name}), snap, circuit, witness, pubs, privs })
            }

            /// The kit's tiny arithmetic circuit and its circuit-prover batch proof (honest only).
            fn circ_prove(n: usize, fri: &FriSc) -> Result<p3_circuit_prover::batch_stark_prover::BatchStarkProof<c::SC>, String> {
                use p3_circuit_prover::common::get_airs_and_degrees_with_prep;
                let packing = p3_circuit_prover::TablePacking::new(4, 4);
                let mut builder = CircuitBuilder::<F>::new();
                let x = builder.public_input();
                let a = builder.public_input();
                let b = builder.public_input();
                let expected = builder.public_input();
                let mut y = builder.mul(a, x);
                y = builder.add(b, y);
                for _ in 0..n {
                    y = builder.mul(a, y);
                    y = builder.add(b, y);
                }
                builder.connect(y, expected);
                let (xa, aa, ba) = (F::from_u64(7), F::from_u64(3), F::from_u64(5));
                let mut yv = aa * xa + ba;
                for _ in 0..n {
                    yv = aa * yv + ba;
                }
                let circuit = builder.build().map_err(|e| format!("tiny circuit: {e:?}"))?;
                let publics = vec![xa, aa, ba, yv];
                let (ad, prim, nonprim) = get_airs_and_degrees_with_prep::<c::SC, F, 1>(
                    &circuit,
                    &packing,
                    &[],
                    &[],
                    p3_circuit_prover::ConstraintProfile::Standard,
                )
                .map_err(|e| format!("{e:?}"))?;
                let (airs, degs): (Vec<_>, Vec<usize>) = ad.into_iter().unzip();
                let mut runner = circuit.runner();
                runner.set_public_inputs(&publics).map_err(|e| format!("{e:?}"))?;
                let traces = runner.run().map_err(|e| format!("{e:?}"))?;
                let config = c::make_config(fri);
                let ext_degs: Vec<usize> = degs.iter().map(|d| d + usize::from(c::ZK)).collect();
                let pd = p3_batch_stark::ProverData::from_airs_and_degrees(&config, &airs, &ext_degs);
                let cpd = p3_circuit_prover::CircuitProverData::new(pd, prim, nonprim);
                let prover = p3_circuit_prover::BatchStarkProver::new(c::make_config(fri)).with_table_packing(packing);
                prover.prove_all_tables(&traces, &cpd).map_err(|e| format!("{e:?}"))
            }

            fn circ(name: &str, n: usize) -> Result<Lib<EF>, String> {
                let fri = FriSc::testing();
                let bsp = circ_prove(n, &fri)?;
                let pis: Vec<Vec<F>> = vec![vec![]; bsp.proof.opened_values.instances.len()];
                let mut cb = c::new_builder();
                let config = c::make_config(&fri);
                let (vi, op_ids) = p3_recursion::verifier::verify_p3_batch_proof_circuit::<
                    c::SC,
                    c::Comm,
                    c::InputProofT,
                    c::InnerFri,
                    LG,
                    _,
                    { c::WIDTH },
                    { c::RATE },
                    1,
                >(
                    &config,
                    &mut cb,
                    &bsp,
                    &vparams(&fri),
                    &bsp.stark_common,
                    &LG::new(),
                    c::perm_cfg(),
                    &[],
                )
                .map_err(|e| format!("verify_p3_batch_proof_circuit: {e:?}"))?;
                let snap = cb.verif_snapshot();
                let circuit = cb.build().map_err(|e| format!("build: {e:?}"))?;
                let (pubs, privs) = vi.pack_values(&pis, &bsp.proof, &bsp.stark_common);
                let witness = honest_run(&circuit, &op_ids, &bsp.proof.opening_proof, &pubs, &privs)?;
                Ok(Lib { name: name.into(), kind: "circuit-batch", how: json!({"stream": "kit", "shape": name}), snap, circuit, witness, pubs, privs })
            }

            pub fn run(name: &str, spec: &KitSpec, shape: &dyn Shape, seed: u64) -> Result<Vec<CaseResult>, String> {
                let lib = match spec {
                    KitSpec::Uni(air) => uni(name, *air, &shape.honest()?)?,
                    KitSpec::Batch(airs) => batch(name, airs.clone(), &shape.honest()?)?,
                    KitSpec::Circ(n) => circ(name, *n)?,
                };
                Ok(analyse::<F, EF>(&lib, seed))
            }
        }
    };
}

mod kc {
    kit_cfg!(bb);
    kit_cfg!(kb);
    kit_cfg!(kb5);
    kit_cfg!(gl);
    kit_cfg!(kbzk);
    kit_cfg!(kbzkh);
    kit_cfg!(bbc);
    kit_cfg!(kba);
    kit_cfg!(kbzkhc);
}

/// Larger instances for the thorough tier (not in the kit's list; built with `kit::probe_shape`):
/// more tables per batch, taller traces (more FRI phases), bigger proven circuits.
fn extra_shapes() -> Vec<Box<dyn Shape>> {
    [
        "bb/batch/mul64,mul256,add256,sub32,fib32,pv8",
        "kb/uni/fib1024",
        "bb/uni/mul1024",
        "bb/circ400",
        "kb/circ1000",
        "kb5/batch/mul64,add256,fib32",
        "gl/batch/mul256,add256,sub32,fib32",
        "gl/circ400",
        "kbzk/batch/mul64,add256,sub32,fib32",
        "kbzkh/batch/mul64,add64,fib32",
    ]
    .iter()
    .filter_map(|s| kit::probe_shape(s))
    .collect()
}

fn shape_by_name(name: &str) -> Option<Box<dyn Shape>> {
    kit::shape_by_name(name).or_else(|| extra_shapes().into_iter().find(|s| s.name() == name))
}

fn run_kit_shape(shape: &dyn Shape, seed: u64) -> Vec<CaseResult> {
    let name = shape.name();
    let Some((spec, cfg)) = parse_shape_name(&name) else {
        return both_inconclusive(&name, "shape name not understood by c02lib".into());
    };
    use kit::cfgs;
    let r = guarded(|| match cfg.as_str() {
        x if x == cfgs::bb::CFG_NAME => kc::bb::run(&name, &spec, shape, seed),
        x if x == cfgs::kb::CFG_NAME => kc::kb::run(&name, &spec, shape, seed),
        x if x == cfgs::kb5::CFG_NAME => kc::kb5::run(&name, &spec, shape, seed),
        x if x == cfgs::gl::CFG_NAME => kc::gl::run(&name, &spec, shape, seed),
        x if x == cfgs::kbzk::CFG_NAME => kc::kbzk::run(&name, &spec, shape, seed),
        x if x == cfgs::kbzkh::CFG_NAME => kc::kbzkh::run(&name, &spec, shape, seed),
        x if x == cfgs::bbc::CFG_NAME => kc::bbc::run(&name, &spec, shape, seed),
        x if x == cfgs::kba::CFG_NAME => kc::kba::run(&name, &spec, shape, seed),
        x if x == cfgs::kbzkhc::CFG_NAME => kc::kbzkhc::run(&name, &spec, shape, seed),
        other => Err(format!("unknown configuration {other}")),
    });
    match r {
        Ok(Ok(rs)) => rs,
        Ok(Err(e)) => not_analysed(&name, shape.kind(), json!({"stream": "kit", "shape": name}), e),
        Err(p) => both_inconclusive(&name, format!("harness panic: {}", panic_site(&p))),
    }
}

fn both_inconclusive(name: &str, why: String) -> Vec<CaseResult> {
    let why: String = why.chars().take(160).collect();
    vec![
        CaseResult::inconclusive(format!("C02:lib:{name}"), why.clone()),
        CaseResult::inconclusive(format!("C03:lib:{name}"), why),
    ]
}

/// Outcome of building + running a library circuit that did not reach the oracles.
///
/// The inputs are honest and accepted by the native verifier (C01 / C07 / the native challenger
/// establish that on the same data), i.e. every relation the library asserts holds mathematically;
/// if the compiled circuit nevertheless refuses them at run time, some expression was not given
/// the value it denotes (C02: "the run succeeds whenever every asserted relation holds").
/// Everything else (proof generation, circuit construction, `build()` errors) is a harness /
/// other-property matter and stays inconclusive.
fn not_analysed(name: &str, kind: &str, how: Value, e: String) -> Vec<CaseResult> {
    if let Some(err) = e.strip_prefix("honest run failed: ") {
        let variant: String = err.split(|c: char| !c.is_alphanumeric() && c != '_').find(|s| !s.is_empty()).unwrap_or("Err").to_string();
        return vec![
            CaseResult::violated(
                format!("C02:lib:{name}"),
                format!("lib-honest-run-failed/{variant}/{kind}"),
                json!({"circuit": name, "how": how, "error": err.chars().take(400).collect::<String>(),
                    "note": "honest, natively accepted inputs; CircuitRunner::run returned Err"}),
            ),
            CaseResult::inconclusive(format!("C03:lib:{name}"), "honest run failed (reported under C02)"),
        ];
    }
    both_inconclusive(name, e)
}

// ------------------------------------------------------------------------------------------
// Stream 2: in-circuit challenger histories (generator and configurations of c05.rs)
// ------------------------------------------------------------------------------------------

/// `c05::build_history` with the builder kept until the snapshot is taken (honest hooks only).
fn challenger_lib<C: Cfg>(name: &str, h: &[HOp], recompose: bool, consume: bool) -> Result<Lib<EOf<C>>, String> {
    use p3_recursion::traits::RecursiveChallenger;
    let mut b = CircuitBuilder::<EOf<C>>::new();
    C::enable(&mut b, recompose, None, None);
    let mut ch: Box<dyn RecursiveChallenger<BOf<C>, EOf<C>>> = C::circuit_challenger();
    let seven = b.define_const(eel::<C>(&[7]));
    let mut publics: Vec<EOf<C>> = vec![];
    let target = |b: &mut CircuitBuilder<EOf<C>>, publics: &mut Vec<EOf<C>>, val: EOf<C>, k: bool| -> ExprId {
        if k {
            b.define_const(val)
        } else {
            publics.push(val);
            b.public_input()
        }
    };
    for op in h {
        match op {
            HOp::Obs { v, k } => {
                let t = target(&mut b, &mut publics, eel::<C>(&[*v]), *k);
                ch.observe(&mut b, t);
            }
            HOp::ObsExt { v, k } => {
                let t = target(&mut b, &mut publics, eel::<C>(v), *k);
                ch.observe_ext(&mut b, t);
            }
            HOp::ObsSlice { vs, k } => {
                let ts: Vec<ExprId> = vs.iter().map(|v| target(&mut b, &mut publics, eel::<C>(&[*v]), *k)).collect();
                ch.observe_slice(&mut b, &ts);
            }
            HOp::ObsExtSlice { vs, k } => {
                let ts: Vec<ExprId> = vs.iter().map(|v| target(&mut b, &mut publics, eel::<C>(v), *k)).collect();
                ch.observe_ext_slice(&mut b, &ts);
            }
            HOp::Sample => {
                let t = ch.sample(&mut b);
                if consume {
                    b.mul(t, seven);
                }
            }
            HOp::SampleExt => {
                let t = ch.sample_ext(&mut b);
                if consume {
                    b.mul(t, seven);
                }
            }
            HOp::SampleExtVec { n } => {
                for t in ch.sample_ext_vec(&mut b, *n) {
                    if consume {
                        b.mul(t, seven);
                    }
                }
            }
            HOp::SampleBits { n } => {
                ch.sample_bits(&mut b, *n).map_err(|e| format!("sample_bits({n}): {e:?}"))?;
            }
            HOp::Pow { bits, w, .. } => {
                let t = target(&mut b, &mut publics, eel::<C>(&[*w]), false);
                ch.check_pow_witness(&mut b, *bits, t).map_err(|e| format!("check_pow_witness({bits}): {e:?}"))?;
            }
            HOp::Clear => ch.clear(&mut b),
        }
    }
    let snap = b.verif_snapshot();
    let circuit = b.build().map_err(|e| format!("build: {e:?}"))?;
    let mut runner = circuit.runner();
    runner.set_public_inputs(&publics).map_err(|e| format!("set_public_inputs: {e:?}"))?;
    let traces = runner.run().map_err(|e| format!("honest run failed: {e:?}"))?;
    let witness = read_witness(&circuit, &traces)?;
    Ok(Lib {
        name: name.into(),
        kind: "challenger",
        how: json!({"stream": "challenger", "config": C::NAME, "history": h, "recompose_npo": recompose, "consume": consume}),
        snap,
        circuit,
        witness,
        pubs: publics,
        privs: vec![],
    })
}

fn challenger_history<C: Cfg>(h: &[HOp], recompose: bool, consume: bool, seed: u64) -> Vec<CaseResult> {
    let name = format!("challenger/{}/{:016x}", C::NAME, fnv(&format!("{}{recompose}{consume}", serde_json::to_string(h).unwrap_or_default())));
    match guarded(|| challenger_lib::<C>(&name, h, recompose, consume)) {
        Ok(Ok(lib)) => analyse::<BOf<C>, EOf<C>>(&lib, seed),
        Ok(Err(e)) => not_analysed(
            &name,
            "challenger",
            json!({"stream": "challenger", "config": C::NAME, "history": h, "recompose_npo": recompose, "consume": consume}),
            e,
        ),
        Err(p) => both_inconclusive(&name, format!("harness panic: {}", panic_site(&p))),
    }
}

fn challenger_case<C: Cfg>(seed: u64, idx: usize) -> Vec<CaseResult> {
    let mut rng = case_rng(seed, "c02lib-challenger", idx as u64);
    let recompose = <C::S as Setup>::D > 1 && rng.random_range(0..2u32) == 0;
    let o = c05::GenOpts {
        max_ops: *pick(&mut rng, &[40usize, 80, 160]),
        max_perms: 48,
        pow: true,
        clear: true,
        bits: true,
        end_sample: true,
        const_pct: 40,
    };
    let h = gen_history::<C>(&mut rng, &o);
    let consume = h.len() % 3 != 0;
    if h.is_empty() {
        return vec![];
    }
    challenger_history::<C>(&h, recompose, consume, seed)
}

// ------------------------------------------------------------------------------------------
// Stream 3: FRI-only PCS verification circuits with varied FRI parameters (plain flavours)
// ------------------------------------------------------------------------------------------

#[derive(Clone, Debug, serde::Serialize, serde::Deserialize)]
pub struct FriPoint {
    pub flavor: String,
    pub log_blowup: usize,
    pub num_queries: usize,
    pub max_log_arity: usize,
    pub log_final_poly_len: usize,
    pub commit_pow_bits: usize,
    pub query_pow_bits: usize,
    /// per commitment: (log2 domain size, width, points: bit0 = zeta, bit1 = zeta*g)
    pub batches: Vec<Vec<(usize, usize, u8)>>,
    pub data_seed: u64,
}

impl FriPoint {
    fn key(&self) -> String {
        let shape: Vec<String> = self
            .batches
            .iter()
            .map(|b| b.iter().map(|(l, w, p)| format!("{l}x{w}@{p}")).collect::<Vec<_>>().join(","))
            .collect();
        format!(
            "fri/{}/lb{}-q{}-a{}-fp{}-cp{}-qp{}-[{}]",
            self.flavor,
            self.log_blowup,
            self.num_queries,
            self.max_log_arity,
            self.log_final_poly_len,
            self.commit_pow_bits,
            self.query_pow_bits,
            shape.join("|")
        )
    }
}

fn fp(flavor: &str, lb: usize, q: usize, a: usize, f: usize, cp: usize, qp: usize, batches: Vec<Vec<(usize, usize, u8)>>) -> FriPoint {
    FriPoint {
        flavor: flavor.into(),
        log_blowup: lb,
        num_queries: q,
        max_log_arity: a,
        log_final_poly_len: f,
        commit_pow_bits: cp,
        query_pow_bits: qp,
        batches,
        data_seed: 0,
    }
}

/// Parameter points (a subset of the C07 covering grid: plain `TwoAdicFriPcs`, every commitment
/// holds a matrix of the global maximum height). The first `quick` ones are the quick tier.
fn fri_points(seed: u64, thorough: bool) -> Vec<FriPoint> {
    let mut g = vec![
        fp("bb", 2, 2, 1, 0, 1, 1, vec![vec![(0, 1, 1), (3, 2, 1), (5, 3, 1)], vec![(4, 2, 1), (5, 1, 1)]]),
        fp("kb", 1, 4, 3, 0, 0, 3, vec![vec![(6, 2, 1), (3, 2, 3)], vec![(5, 1, 2), (6, 1, 3)]]),
        fp("bb", 1, 3, 2, 0, 0, 2, vec![vec![(6, 2, 3)], vec![(3, 3, 1), (6, 1, 1), (2, 1, 1)]]),
        fp("kb", 2, 2, 2, 2, 3, 1, vec![vec![(5, 2, 1), (5, 3, 1), (4, 1, 1), (3, 1, 1)]]),
        fp("bb", 3, 1, 1, 1, 2, 0, vec![vec![(5, 4, 1)], vec![(5, 1, 3)], vec![(5, 2, 2)]]),
        fp("kb", 2, 2, 3, 0, 0, 1, vec![vec![(6, 2, 1), (6, 1, 2)]]),
    ];
    g.extend([
        fp("bb", 1, 8, 3, 3, 1, 2, vec![vec![(6, 1, 1)], vec![(5, 2, 1), (6, 1, 1)]]),
        fp("bb", 1, 4, 3, 0, 0, 16, vec![vec![(6, 3, 3)], vec![(6, 2, 1), (5, 2, 1)]]),
        fp("bb", 2, 1, 2, 0, 0, 0, vec![vec![(0, 1, 1), (4, 1, 3)], vec![(1, 2, 1), (4, 1, 1)], vec![(4, 1, 1)]]),
        fp("kb", 3, 3, 3, 2, 2, 3, vec![vec![(6, 2, 1), (3, 1, 1)]]),
        fp("kb", 1, 6, 1, 0, 3, 0, vec![vec![(3, 1, 1)], vec![(3, 1, 3)]]),
        fp("bb", 2, 7, 2, 3, 1, 1, vec![vec![(5, 1, 1), (4, 2, 1)]]),
        fp("bb", 2, 5, 2, 1, 0, 1, vec![vec![(2, 1, 1), (4, 1, 3)], vec![(3, 2, 1), (4, 2, 2)], vec![(4, 1, 1)]]),
        fp("kb", 1, 8, 2, 1, 1, 1, vec![vec![(8, 4, 3)], vec![(8, 2, 1), (6, 3, 3), (4, 1, 1)]]),
        fp("bb", 1, 6, 3, 2, 1, 1, vec![vec![(9, 3, 3), (7, 2, 1)], vec![(9, 1, 1)]]),
    ]);
    if thorough {
        // large instances (10^4 - 10^5 source nodes) and random points
        g.extend([
            fp("bb", 1, 16, 3, 0, 1, 1, vec![vec![(10, 4, 3)], vec![(10, 2, 1), (8, 3, 3)]]),
            fp("kb", 2, 24, 2, 2, 1, 1, vec![vec![(11, 6, 3), (9, 2, 1)], vec![(11, 3, 1)]]),
            fp("bb", 1, 40, 1, 0, 0, 8, vec![vec![(12, 8, 3)], vec![(12, 4, 1)], vec![(12, 2, 3), (10, 1, 1)]]),
            fp("kb", 1, 100, 2, 0, 0, 0, vec![vec![(12, 6, 3)], vec![(12, 3, 3), (9, 2, 1)]]),
        ]);
        for i in 0..240usize {
            let mut rng = case_rng(seed, "c02lib-fri-random", i as u64);
            let lb = 1 + i % 3;
            let a = 1 + (i / 3) % 3;
            let f = (i / 9) % 4;
            let min_ls = if f > 0 { f + 1 } else { 0 };
            let max_ls = (min_ls + 1 + rng.random_range(0..6usize)).min(9);
            let nb = 1 + rng.random_range(0..3usize);
            let mut batches = vec![];
            for _ in 0..nb {
                let nm = 1 + rng.random_range(0..3usize);
                let mut b: Vec<(usize, usize, u8)> = (0..nm)
                    .map(|_| (rng.random_range(min_ls..=max_ls), 1 + rng.random_range(0..4usize), *pick(&mut rng, &[1u8, 1, 1, 3, 3, 2])))
                    .collect();
                // every commitment holds a matrix of the global maximum height
                let k = rng.random_range(0..b.len());
                b[k].0 = max_ls;
                batches.push(b);
            }
            g.push(fp(
                if i % 2 == 0 { "bb" } else { "kb" },
                lb,
                1 + rng.random_range(0..8usize),
                a,
                f,
                rng.random_range(0..4usize),
                rng.random_range(0..4usize),
                batches,
            ));
        }
    }
    for (i, p) in g.iter_mut().enumerate() {
        let mut rng = case_rng(seed, "c02lib-fri", i as u64);
        p.data_seed = rng.random::<u64>();
    }
    g
}

/// The in-circuit PCS verifier of `c07/core.inc.rs::build` (in-circuit challenger in the pre-PCS
/// state, `get_challenges_circuit`, `verify_circuit` with MMCS verification) over the kit's plain
/// configuration modules, with the builder kept until the snapshot is taken.
macro_rules! fri_cfg {
    ($m:ident) => {
        pub mod $m {
            use std::collections::BTreeMap;

            use p3_challenger::{CanObserve, FieldChallenger};
            use p3_commit::Pcs;
            use p3_field::coset::TwoAdicMultiplicativeCoset;
            use p3_matrix::dense::RowMajorMatrix;
            use p3_recursion::types::OpenedValuesTargetsWithLookups;
            use p3_recursion::{CircuitChallenger, OpenedValuesTargets, Poseidon2Config, Recursive, RecursiveChallenger, RecursivePcs, Target};
            use rand::SeedableRng;

            use super::super::*;
            use crate::kit::cfgs::$m as c;

            type F = c::F;
            type EF = c::Challenge;
            type Domain = TwoAdicMultiplicativeCoset<F>;
            type Com = c::ComV;
            type Claimed = Vec<Vec<Vec<Vec<EF>>>>;
            type RP = c::PcsT;

            fn make_pcs(p: &FriPoint) -> c::PcsT {
                let perm = c::default_perm();
                let val_mmcs = c::MyMmcs::new(c::MyHash::new(perm.clone()), c::MyCompress::new(perm), 0);
                let fri = p3_fri::FriParameters {
                    log_blowup: p.log_blowup,
                    log_final_poly_len: p.log_final_poly_len,
                    max_log_arity: p.max_log_arity,
                    num_queries: p.num_queries,
                    commit_proof_of_work_bits: p.commit_pow_bits,
                    query_proof_of_work_bits: p.query_pow_bits,
                    mmcs: c::ChallengeMmcs::new(val_mmcs.clone()),
                };
                c::PcsT::new(c::Dft::default(), val_mmcs, fri)
            }

            fn domain_of(pcs: &c::PcsT, log_size: usize) -> Domain {
                <c::PcsT as Pcs<EF, c::Challenger>>::natural_domain_for_degree(pcs, 1usize << log_size)
            }

            fn points_of(zeta: EF, d: &Domain, pts: u8) -> Vec<EF> {
                let g: F = d.subgroup_generator();
                let mut v = vec![];
                if pts & 1 != 0 {
                    v.push(zeta);
                }
                if pts & 2 != 0 {
                    v.push(zeta * g);
                }
                v
            }

            fn fresh_challenger(coms: &[Com]) -> (c::Challenger, EF) {
                let mut ch = c::Challenger::new(c::default_perm());
                for cm in coms {
                    ch.observe(cm.clone());
                }
                let zeta: EF = ch.sample_algebra_element();
                (ch, zeta)
            }

            fn build_lib(p: &FriPoint) -> Result<Lib<EF>, String> {
                let pcs = make_pcs(p);
                // ---- honest native commitment + opening proof ----
                let mut rng = rand::rngs::SmallRng::seed_from_u64(p.data_seed);
                let mut coms: Vec<Com> = vec![];
                let mut datas = vec![];
                for batch in &p.batches {
                    let evals: Vec<(Domain, RowMajorMatrix<F>)> = batch
                        .iter()
                        .map(|(ls, w, _)| (domain_of(&pcs, *ls), RowMajorMatrix::<F>::rand(&mut rng, 1usize << ls, *w)))
                        .collect();
                    let (cm, pd) = <c::PcsT as Pcs<EF, c::Challenger>>::commit(&pcs, evals);
                    coms.push(cm);
                    datas.push(pd);
                }
                let (mut ch, zeta) = fresh_challenger(&coms);
                let open_data = datas
                    .iter()
                    .zip(&p.batches)
                    .map(|(pd, b)| (pd, b.iter().map(|(ls, _, pts)| points_of(zeta, &domain_of(&pcs, *ls), *pts)).collect::<Vec<_>>()))
                    .collect::<Vec<_>>();
                let (claimed, proof): (Claimed, c::PcsProofT) = <c::PcsT as Pcs<EF, c::Challenger>>::open(&pcs, open_data, &mut ch);
                let domains: Vec<Vec<Domain>> = p.batches.iter().map(|b| b.iter().map(|(ls, _, _)| domain_of(&pcs, *ls)).collect()).collect();
                // native verdict first: only natively accepted proofs are monitored
                {
                    let (mut vch, vz) = fresh_challenger(&coms);
                    let mut cwp = vec![];
                    for (b, com) in coms.iter().enumerate() {
                        let mut mats = vec![];
                        for (m, d) in domains[b].iter().enumerate() {
                            let pts = points_of(vz, d, p.batches[b][m].2);
                            let pv: Vec<(EF, Vec<EF>)> = pts.iter().zip(claimed[b][m].iter()).map(|(z, v)| (*z, v.clone())).collect();
                            mats.push((*d, pv));
                        }
                        cwp.push((com.clone(), mats));
                    }
                    <c::PcsT as Pcs<EF, c::Challenger>>::verify(&pcs, cwp, &proof, &mut vch)
                        .map_err(|e| format!("native PCS verification of the honest proof failed: {e:?}"))?;
                }
                // ---- circuit ----
                let mut cb = c::new_builder();
                let ctx_t: Vec<Target> = (0..coms.len() * c::DIGEST_ELEMS).map(|_| cb.public_input()).collect();
                let com_t: Vec<c::Comm> = coms.iter().map(|cm| <c::Comm as Recursive<EF>>::new(&mut cb, cm)).collect();
                let claimed_t: Vec<Vec<Vec<Vec<Target>>>> = claimed
                    .iter()
                    .map(|b| b.iter().map(|m| m.iter().map(|pt| (0..pt.len()).map(|_| cb.public_input()).collect()).collect()).collect())
                    .collect();
                let proof_t = <c::FriT as Recursive<EF>>::new(&mut cb, &proof);
                let mut cch = CircuitChallenger::<{ c::WIDTH }, { c::RATE }, Poseidon2Config>::new(c::perm_cfg());
                RecursiveChallenger::<F, EF>::observe_slice(&mut cch, &mut cb, &ctx_t);
                let zeta_t = RecursiveChallenger::<F, EF>::sample_ext(&mut cch, &mut cb);
                let mut next_cache: BTreeMap<usize, Target> = BTreeMap::new();
                let mut coms_t = vec![];
                for (b, batch) in p.batches.iter().enumerate() {
                    let mut mats = vec![];
                    for (m, (ls, _, pts)) in batch.iter().enumerate() {
                        let d = domains[b][m];
                        let mut zs = vec![];
                        if pts & 1 != 0 {
                            zs.push(zeta_t);
                        }
                        if pts & 2 != 0 {
                            let zn = *next_cache.entry(*ls).or_insert_with(|| {
                                let g = cb.define_const(EF::from(d.subgroup_generator()));
                                cb.mul(zeta_t, g)
                            });
                            zs.push(zn);
                        }
                        let pv: Vec<(Target, Vec<Target>)> = zs.into_iter().zip(claimed_t[b][m].iter().cloned()).collect();
                        mats.push((d, pv));
                    }
                    coms_t.push((com_t[b].clone(), mats));
                }
                for batch in claimed_t.iter() {
                    for mat in batch.iter() {
                        for vals in mat.iter() {
                            RecursiveChallenger::<F, EF>::observe_ext_slice(&mut cch, &mut cb, vals);
                        }
                    }
                }
                let vp = p3_recursion::FriVerifierParams::with_mmcs(
                    p.log_blowup,
                    p.log_final_poly_len,
                    p.commit_pow_bits,
                    p.query_pow_bits,
                    c::perm_cfg(),
                );
                let dummy = OpenedValuesTargetsWithLookups::<c::SC> {
                    opened_values_no_lookups: OpenedValuesTargets::<c::SC> {
                        trace_local_targets: vec![],
                        trace_next_targets: vec![],
                        preprocessed_local_targets: None,
                        preprocessed_next_targets: None,
                        quotient_chunks_targets: vec![],
                        random_targets: None,
                        _phantom: core::marker::PhantomData,
                    },
                    permutation_local_targets: vec![],
                    permutation_next_targets: vec![],
                };
                let challenges = <RP as RecursivePcs<c::SC, c::InputProofT, c::FriT, c::Comm, Domain>>::get_challenges_circuit::<
                    { c::WIDTH },
                    { c::RATE },
                    Poseidon2Config,
                >(&mut cb, &mut cch, &proof_t, &dummy, &vp)
                .map_err(|e| format!("get_challenges_circuit: {e:?}"))?;
                let op_ids = <RP as RecursivePcs<c::SC, c::InputProofT, c::FriT, c::Comm, Domain>>::verify_circuit::<
                    { c::WIDTH },
                    { c::RATE },
                    Poseidon2Config,
                >(&pcs, &mut cb, &challenges, &mut cch, &coms_t, &proof_t, &vp)
                .map_err(|e| format!("verify_circuit: {e:?}"))?;
                let snap = cb.verif_snapshot();
                let circuit = cb.build().map_err(|e| format!("build: {e:?}"))?;
                // ---- pack (allocation order) + run ----
                let mut pubs: Vec<EF> = vec![];
                for cm in &coms {
                    pubs.extend(<c::Comm as Recursive<EF>>::get_values(cm));
                }
                for cm in &coms {
                    pubs.extend(<c::Comm as Recursive<EF>>::get_values(cm));
                }
                for b in &claimed {
                    for m in b {
                        for pt in m {
                            pubs.extend(pt.iter().copied());
                        }
                    }
                }
                pubs.extend(<c::FriT as Recursive<EF>>::get_values(&proof));
                let privs = <c::FriT as Recursive<EF>>::get_private_values(&proof);
                let mut runner = circuit.runner();
                runner.set_public_inputs(&pubs).map_err(|e| format!("set_public_inputs: {e:?}"))?;
                runner.set_private_inputs(&privs).map_err(|e| format!("set_private_inputs: {e:?}"))?;
                c::set_mmcs(&mut runner, &op_ids, &proof).map_err(|e| format!("mmcs private data: {e}"))?;
                let traces = runner.run().map_err(|e| format!("honest run failed: {e:?}"))?;
                let witness = read_witness(&circuit, &traces)?;
                Ok(Lib { name: p.key(), kind: "fri", how: json!({"stream": "fri", "point": p}), snap, circuit, witness, pubs, privs })
            }

            pub fn run(p: &FriPoint, seed: u64) -> Result<Vec<CaseResult>, String> {
                let lib = build_lib(p)?;
                Ok(analyse::<F, EF>(&lib, seed))
            }
        }
    };
}

mod fc {
    fri_cfg!(bb);
    fri_cfg!(kb);
}

fn run_fri_point(p: &FriPoint, seed: u64) -> Vec<CaseResult> {
    let name = p.key();
    let r = guarded(|| match p.flavor.as_str() {
        "bb" => fc::bb::run(p, seed),
        "kb" => fc::kb::run(p, seed),
        other => Err(format!("unknown FRI flavour {other}")),
    });
    match r {
        Ok(Ok(rs)) => rs,
        Ok(Err(e)) => not_analysed(&name, "fri", json!({"stream": "fri", "point": p}), e),
        Err(pn) => both_inconclusive(&name, format!("harness panic: {}", panic_site(&pn))),
    }
}

// ------------------------------------------------------------------------------------------
// Stream 0 (not in the default set; `--streams micro`): hand-written idioms used to check that the
// oracles can fire (aliased product read by an add, connect-induced duplicate ALU ops)
// ------------------------------------------------------------------------------------------

fn micro_cases(seed: u64) -> Vec<CaseResult> {
    type F = kit::cfgs::bb::F;
    type EF = kit::cfgs::bb::Challenge;
    let mut out = vec![];
    let v = |x: u64| EF::from(F::from_u64(x));
    let mut run = |name: &str, b: CircuitBuilder<EF>, pubs: Vec<EF>| {
        let r = (|| -> Result<Lib<EF>, String> {
            let snap = b.verif_snapshot();
            let circuit = b.build().map_err(|e| format!("build: {e:?}"))?;
            if std::env::var("P3R_C02LIB_DUMP").is_ok() {
                eprintln!("micro/{name}: {:#?}\n{:?}", opsem::ops_text(&circuit), snap.nodes);
            }
            let mut runner = circuit.runner();
            runner.set_public_inputs(&pubs).map_err(|e| format!("set_public_inputs: {e:?}"))?;
            let traces = runner.run().map_err(|e| format!("honest run failed: {e:?}"))?;
            let witness = read_witness(&circuit, &traces)?;
            Ok(Lib { name: format!("micro/{name}"), kind: "micro", how: json!({"stream": "micro", "program": name}), snap, circuit, witness, pubs, privs: vec![] })
        })();
        match r {
            Ok(lib) => out.extend(analyse::<F, EF>(&lib, seed)),
            Err(e) => out.extend(not_analysed(&format!("micro/{name}"), "micro", json!({"stream": "micro", "program": name}), e)),
        }
    };
    {
        // t = a*5 shares its slot with the public input p (connect); o = t + c reads it once
        let mut b = CircuitBuilder::<EF>::new();
        let (p, a, c) = (b.public_input(), b.public_input(), b.public_input());
        let k = b.define_const(v(5));
        let t = b.mul(a, k);
        b.connect(t, p);
        let o = b.add(t, c);
        let _ = b.mul(o, o);
        run("aliased-product-plus-addend", b, vec![v(15), v(3), v(7)]);
    }
    {
        // a2 is connected to a: add(a,b) and add(a2,b) become duplicate ALU ops; both results are read
        let mut b = CircuitBuilder::<EF>::new();
        let (a, a2, bb, r) = (b.public_input(), b.public_input(), b.public_input(), b.public_input());
        b.connect(a, a2);
        let x = b.add(a, bb);
        let y = b.add(a2, bb);
        let m = b.mul(x, y);
        b.connect(m, r);
        run("connect-induced-duplicate-add", b, vec![v(3), v(3), v(5), v(64)]);
    }
    out
}

// ------------------------------------------------------------------------------------------
// Scheduling, output protocol
// ------------------------------------------------------------------------------------------

enum Job {
    Micro,
    Kit(usize),
    Challenger(usize),
    Fri(usize),
}

/// `util::case_to_json` (private there): the line format of `run_cases_isolated` children.
fn case_to_json(r: &CaseResult) -> Value {
    let (v, sig, detail, why) = match &r.verdict {
        Verdict::Held => ("held", None, None, None),
        Verdict::Violated { signature, detail } => ("violated", Some(signature.clone()), Some(detail.clone()), None),
        Verdict::Inconclusive(w) => ("inconclusive", None, None, Some(w.clone())),
    };
    json!({"key": r.key, "nontrivial": r.nontrivial, "verdict": v, "signature": sig, "detail": detail, "why": why,
           "counters": r.counters, "sample": r.sample})
}

fn replay_detail(d: &Value, seed: u64) -> Vec<CaseResult> {
    let how = &d["how"];
    match how["stream"].as_str() {
        Some("kit") => {
            let name = how["shape"].as_str().unwrap_or("");
            match shape_by_name(name) {
                Some(s) => run_kit_shape(s.as_ref(), seed),
                None => both_inconclusive(name, "unknown kit shape".into()),
            }
        }
        Some("challenger") => {
            let Ok(h) = serde_json::from_value::<Vec<HOp>>(how["history"].clone()) else {
                return both_inconclusive("replay", "history does not parse".into());
            };
            let recompose = how["recompose_npo"].as_bool().unwrap_or(false);
            let consume = how["consume"].as_bool().unwrap_or(true);
            let cfg = how["config"].as_str().unwrap_or("").to_string();
            if !ALL_CONFIGS.contains(&cfg.as_str()) {
                return both_inconclusive("replay", "unknown challenger configuration".into());
            }
            with_cfg!(cfg.as_str(), challenger_history, &h, recompose, consume, seed)
        }
        Some("fri") => match serde_json::from_value::<FriPoint>(how["point"].clone()) {
            Ok(p) => run_fri_point(&p, seed),
            Err(e) => both_inconclusive("replay", format!("FRI point does not parse: {e}")),
        },
        _ => both_inconclusive("replay", "replay file without a stream".into()),
    }
}

fn main() {
    let args = parse_args();
    install_quiet_panic_hook();
    let emit = args.extra.get("emit").cloned();
    let thorough = args.tier == Tier::Thorough;
    let seed = args.seed;

    if let Some(p) = &args.replay {
        let mut rep = Report::new("C02LIB", "exploration", &args, "replay of one library-built circuit");
        let v: Value = serde_json::from_str(&std::fs::read_to_string(p).expect("replay file")).expect("json");
        let file_seed = v["seed"].as_i64().map(|s| s as u64).unwrap_or(seed);
        let rs = replay_detail(&v["detail"], file_seed);
        for r in &rs {
            println!("replay {}: {}", r.key, case_to_json(r)["verdict"]);
        }
        rep.add_all(rs);
        rep.finish(0);
    }

    let streams: Vec<String> = args
        .extra
        .get("streams")
        .map(|s| s.split(',').map(|x| x.trim().to_string()).collect())
        .unwrap_or_else(|| vec!["kit".into(), "challenger".into(), "fri".into()]);
    let filter = args.extra.get("shape").cloned();

    let mut shapes = kit::all_shapes(thorough);
    if thorough {
        shapes.extend(extra_shapes());
    }
    if let Some(f) = &filter {
        shapes.retain(|s| s.name().contains(f.as_str()));
    }
    let mut points = fri_points(seed, thorough);
    if let Some(f) = &filter {
        points.retain(|p| p.key().contains(f.as_str()));
    }
    let n_hist = if filter.as_ref().is_some_and(|f| !f.contains("challenger")) { 0 } else { args.tier.pick(120usize, 4000usize) };

    // largest circuits first (the thorough-only shapes are appended last by the kit)
    let mut jobs: Vec<Job> = vec![];
    if streams.iter().any(|s| s == "kit") {
        jobs.extend((0..shapes.len()).rev().map(Job::Kit));
    }
    if streams.iter().any(|s| s == "fri") {
        jobs.extend((0..points.len()).rev().map(Job::Fri));
    }
    if streams.iter().any(|s| s == "challenger") {
        jobs.extend((0..n_hist).map(Job::Challenger));
    }

    if streams.iter().any(|s| s == "micro") {
        jobs.push(Job::Micro);
    }
    let results = run_cases(jobs.len(), args.threads, |i| match &jobs[i] {
        Job::Micro => micro_cases(seed),
        Job::Kit(s) => run_kit_shape(shapes[*s].as_ref(), seed),
        Job::Fri(p) => run_fri_point(&points[*p], seed),
        Job::Challenger(k) => {
            let cfg = ALL_CONFIGS[*k % ALL_CONFIGS.len()];
            with_cfg!(cfg, challenger_case, seed, *k)
        }
    });

    if let Some(prop) = emit {
        use std::io::Write;
        let prefix = format!("{prop}:");
        let out = std::io::stdout();
        let mut o = out.lock();
        for r in results.iter().filter(|r| r.key.starts_with(&prefix) || r.key.starts_with("case")) {
            let _ = writeln!(o, "R {}", case_to_json(r));
        }
        let _ = o.flush();
        std::process::exit(0);
    }

    let mut rep = Report::new(
        "C02LIB",
        "exploration",
        &args,
        "case = one library-built circuit (recursive verifier of a kit shape / in-circuit challenger history / FRI-only \
         PCS verifier) with its honest witness; C02 part: every source node, connect and recompose call re-evaluated on \
         the witness (non-trivial = at least one node checked); C03 part: one random filling of the slots no op relation \
         refers to (non-trivial = at least one slot randomised); distinct by (circuit, filling)",
    );
    rep.assume("native p3-field arithmetic is correct; Expr semantics as documented in circuit/src/expr.rs");
    rep.assume("op relation model of opsem::relation_slots (intermediate_out of MulAdd, hint in/outputs and unexposed NPO outputs carry no relation)");
    rep.assume("NonPrimitiveOutput nodes are uninterpreted except recompose calls");
    for r in &results {
        for (k, _) in &r.counters {
            if let Some(x) = k.strip_prefix("lib-shape-kind/") {
                rep.observe("shape-kinds", x.to_string());
            }
            if let Some(x) = k.strip_prefix("lib-checked/") {
                rep.observe("node-kinds-checked", x.to_string());
            }
            if let Some(x) = k.strip_prefix("lib-free-slot-class/") {
                rep.observe("free-slot-classes", x.to_string());
            }
            if let Some(x) = k.strip_prefix("lib-source-nodes-on-free-slots/") {
                rep.observe("node-kinds-on-free-slots", x.to_string());
            }
        }
        if matches!(r.verdict, Verdict::Held) && r.key.starts_with("C02:lib:") {
            rep.observe("circuits", r.key["C02:lib:".len()..].to_string());
        }
    }
    rep.add_all(results);
    rep.finish(args.tier.pick(20, 60));
}
