//! build → key generation → run → prove → verify pipeline over generated programs, with every
//! stage's outcome recorded (panics captured). Shared by C09, C10, C04, C12.

use p3_circuit::Traces;
use p3_circuit_prover::batch_stark_prover::{BatchStarkProof, CircuitProverData};
use p3_circuit_prover::{ConstraintProfile, TablePacking};
use rand::RngExt;
use rand::rngs::SmallRng;
use serde_json::{Value, json};

use crate::fields::Setup;
use crate::opsem::ops_text;
use crate::prog::{Built, Prog, build};
use crate::util::{guarded, panic_site};

#[derive(Clone, Debug)]
pub struct PackCfg {
    pub public_lanes: usize,
    pub alu_lanes: usize,
    pub min_height: usize,
    pub horner_k: usize,
    pub optimized_profile: bool,
}

impl PackCfg {
    pub fn default_cfg() -> Self {
        Self {
            public_lanes: 1,
            alu_lanes: 1,
            min_height: 1,
            horner_k: 2,
            optimized_profile: false,
        }
    }
    pub fn random(rng: &mut SmallRng) -> Self {
        if rng.random_range(0..4u32) == 0 {
            return Self::default_cfg();
        }
        Self {
            public_lanes: rng.random_range(1..=4),
            alu_lanes: rng.random_range(1..=8),
            min_height: 1usize << rng.random_range(0..=6u32),
            horner_k: rng.random_range(2..=5),
            optimized_profile: rng.random_range(0..4u32) == 0,
        }
    }
    pub fn packing(&self) -> TablePacking {
        TablePacking::new(self.public_lanes, self.alu_lanes)
            .with_horner_pack_k(self.horner_k)
            .with_min_trace_height(self.min_height)
    }
    pub fn profile(&self) -> ConstraintProfile {
        if self.optimized_profile {
            ConstraintProfile::RecursionOptimized
        } else {
            ConstraintProfile::Standard
        }
    }
    pub fn key(&self) -> String {
        format!(
            "pl{}al{}mh{}hk{}{}",
            self.public_lanes,
            self.alu_lanes,
            self.min_height,
            self.horner_k,
            if self.optimized_profile { "opt" } else { "std" }
        )
    }
    pub fn json(&self) -> Value {
        json!({"public_lanes": self.public_lanes, "alu_lanes": self.alu_lanes, "min_height": self.min_height,
               "horner_k": self.horner_k, "optimized_profile": self.optimized_profile})
    }
    pub fn from_json(v: &Value) -> Self {
        Self {
            public_lanes: v["public_lanes"].as_u64().unwrap_or(1) as usize,
            alu_lanes: v["alu_lanes"].as_u64().unwrap_or(1) as usize,
            min_height: v["min_height"].as_u64().unwrap_or(1) as usize,
            horner_k: v["horner_k"].as_u64().unwrap_or(2) as usize,
            optimized_profile: v["optimized_profile"].as_bool().unwrap_or(false),
        }
    }
}

/// Outcome of one stage: Ok, Err(message) or Panic(site).
#[derive(Clone, Debug, PartialEq, Eq)]
pub enum Stage {
    Ok,
    Err(String),
    Panic(String),
    NotReached,
}

impl Stage {
    pub fn is_ok(&self) -> bool {
        *self == Stage::Ok
    }
    /// Coarse class for signatures: "ok", "err:<Variant>", "panic:<site>".
    pub fn class(&self) -> String {
        match self {
            Stage::Ok => "ok".into(),
            Stage::NotReached => "not-reached".into(),
            Stage::Err(e) => format!(
                "err:{}",
                e.split(|c: char| !c.is_alphanumeric()).find(|s| !s.is_empty()).unwrap_or("Err")
            ),
            Stage::Panic(p) => format!("panic:{}", panic_site(p)),
        }
    }
}

pub struct Pipeline<S: Setup> {
    pub built: Option<Built<S>>,
    pub build: Stage,
    pub prep: Stage,
    pub run: Stage,
    pub prove: Stage,
    pub verify: Stage,
    pub traces: Option<Traces<S::E>>,
    pub cpd: Option<CircuitProverData<S::SC>>,
    pub proof: Option<BatchStarkProof<S::SC>>,
}

impl<S: Setup> Pipeline<S> {
    pub fn stages_json(&self) -> Value {
        json!({"build": format!("{:?}", self.build), "prep": format!("{:?}", self.prep), "run": format!("{:?}", self.run),
               "prove": format!("{:?}", self.prove), "verify": format!("{:?}", self.verify)})
    }
    pub fn first_failure(&self) -> Option<(&'static str, &Stage)> {
        for (n, s) in [
            ("build", &self.build),
            ("prep", &self.prep),
            ("run", &self.run),
            ("prove", &self.prove),
            ("verify", &self.verify),
        ] {
            if !s.is_ok() {
                return Some((n, s));
            }
        }
        None
    }
}

fn stage<R>(r: Result<Result<R, String>, String>) -> (Stage, Option<R>) {
    match r {
        Ok(Ok(v)) => (Stage::Ok, Some(v)),
        Ok(Err(e)) => (Stage::Err(e), None),
        Err(p) => (Stage::Panic(p), None),
    }
}

/// Run the whole honest pipeline. `upto_prove = false` stops after `run`.
pub fn run_pipeline<S: Setup>(
    prog: &Prog,
    publics: &[S::E],
    privates: &[S::E],
    cfg: &PackCfg,
    debug_lookups: bool,
    upto_prove: bool,
) -> Pipeline<S> {
    let mut p = Pipeline::<S> {
        built: None,
        build: Stage::NotReached,
        prep: Stage::NotReached,
        run: Stage::NotReached,
        prove: Stage::NotReached,
        verify: Stage::NotReached,
        traces: None,
        cpd: None,
        proof: None,
    };
    let (st, built) = stage(guarded(|| build::<S>(prog).map_err(|e| format!("{e:?}"))));
    p.build = st;
    let Some(built) = built else { return p };
    let packing = cfg.packing();
    let recompose = prog.recompose_npo && S::D > 1;
    let _rc = crate::fields::RecomposeCfg::set(prog.recompose_cfg());
    let (st, cpd) = stage(guarded(|| S::prep_x(&built.circuit, &packing, cfg.profile(), recompose)));
    p.prep = st;
    let (st, traces) = stage(guarded(|| {
        let mut runner = built.circuit.runner();
        runner
            .set_public_inputs(publics)
            .and_then(|_| runner.set_private_inputs(privates))
            .and_then(|_| runner.run())
            .map_err(|e| format!("{e:?}"))
    }));
    p.run = st;
    p.built = Some(built);
    p.traces = traces;
    p.cpd = cpd;
    if !upto_prove || !p.prep.is_ok() || !p.run.is_ok() {
        return p;
    }
    let prover = S::prover_x(packing, recompose, debug_lookups);
    let (st, proof) = stage(guarded(|| S::prove(&prover, p.traces.as_ref().unwrap(), p.cpd.as_ref().unwrap())));
    p.prove = st;
    if let Some(proof) = proof {
        let (st, _) = stage(guarded(|| S::verify(&prover, &proof)));
        p.verify = st;
        p.proof = Some(proof);
    }
    p
}

pub fn case_detail<S: Setup>(
    prog: &Prog,
    publics: &[S::E],
    privates: &[S::E],
    cfg: &PackCfg,
    built: Option<&Built<S>>,
    extra: Value,
) -> Value {
    json!({
        "setup": S::NAME,
        "prog": prog,
        "publics": publics.iter().map(|p| S::coeffs(p)).collect::<Vec<_>>(),
        "privates": privates.iter().map(|p| S::coeffs(p)).collect::<Vec<_>>(),
        "packing": cfg.json(),
        "ops": built.map(|b| ops_text(&b.circuit)),
        "extra": extra,
    })
}

/// Decode a replay file's detail back into (prog, publics, privates, cfg).
pub fn decode_case<S: Setup>(d: &Value) -> (Prog, Vec<S::E>, Vec<S::E>, PackCfg) {
    let prog: Prog = serde_json::from_value(d["prog"].clone()).expect("prog");
    let conv = |x: &Value| -> Vec<S::E> {
        x.as_array()
            .map(|a| {
                a.iter()
                    .map(|c| {
                        S::el(
                            &c.as_array()
                                .unwrap()
                                .iter()
                                .map(|u| u.as_u64().unwrap())
                                .collect::<Vec<_>>(),
                        )
                    })
                    .collect()
            })
            .unwrap_or_default()
    };
    (prog, conv(&d["publics"]), conv(&d["privates"]), PackCfg::from_json(&d["packing"]))
}

/// Dispatch a generic function over the setup named in a replay file / chosen by index.
#[macro_export]
macro_rules! with_setup {
    ($name:expr, $f:ident, $($arg:expr),*) => {
        match $name {
            "babybear-d1" => $f::<$crate::fields::BbD1>($($arg),*),
            "babybear-d4" => $f::<$crate::fields::BbD4>($($arg),*),
            "koalabear-d1" => $f::<$crate::fields::KbD1>($($arg),*),
            "koalabear-d4" => $f::<$crate::fields::KbD4>($($arg),*),
            "koalabear-d8" => $f::<$crate::fields::KbD8>($($arg),*),
            "koalabear-d5-quintic" => $f::<$crate::fields::KbD5>($($arg),*),
            "goldilocks-d1" => $f::<$crate::fields::GlD1>($($arg),*),
            _ => $f::<$crate::fields::GlD2>($($arg),*),
        }
    };
}

pub const SETUP_NAMES: [&str; 8] = [
    "babybear-d1",
    "babybear-d4",
    "koalabear-d1",
    "koalabear-d5-quintic",
    "goldilocks-d2",
    "koalabear-d4",
    "goldilocks-d1",
    "koalabear-d8",
];
