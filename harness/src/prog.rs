//! Program IR over the public `CircuitBuilder` API, with an independent field interpreter
//! (oracle O1, "source semantics") and a replay into a real `CircuitBuilder`.

use p3_circuit::builder::VerifSnapshot;
use p3_circuit::{Circuit, CircuitBuilder, CircuitBuilderError, ExprId};
use p3_field::{Field, PrimeCharacteristicRing, PrimeField64};
use serde::{Deserialize, Serialize};

use crate::fields::Setup;

pub type V = usize;

#[derive(Clone, Debug, Serialize, Deserialize, PartialEq, Eq)]
pub enum Stmt {
    Const(Vec<u64>),
    Public,
    Private,
    Add(V, V),
    Sub(V, V),
    Mul(V, V),
    Div(V, V),
    MulAdd(V, V, V),
    Horner { acc: V, alpha: V, z: V, x: V },
    Select(V, V, V),
    ExpPow2(V, usize),
    MulMany(Vec<V>),
    Inner(Vec<V>, Vec<V>),
    AssertBool(V),
    AssertZero(V),
    Connect(V, V),
    /// `decompose_to_bits(x, n)` -> n vars
    DecomposeBits(V, usize),
    /// `reconstruct_index_from_bits(bits)` -> 1 var (asserts each bit boolean)
    ReconstructBits(Vec<V>),
    /// `decompose_ext_to_base_coeffs(x)` -> D vars
    DecomposeExt(V),
    /// `recompose_base_coeffs_to_ext*(coeffs)` -> 1 var; mode 0 = default, 1 = coeff lookups, 2 = via ALU
    RecomposeExt(Vec<V>, u8),
}

impl Stmt {
    pub fn kind(&self) -> &'static str {
        match self {
            Stmt::Const(_) => "const",
            Stmt::Public => "public",
            Stmt::Private => "private",
            Stmt::Add(..) => "add",
            Stmt::Sub(..) => "sub",
            Stmt::Mul(..) => "mul",
            Stmt::Div(..) => "div",
            Stmt::MulAdd(..) => "mul_add",
            Stmt::Horner { .. } => "horner",
            Stmt::Select(..) => "select",
            Stmt::ExpPow2(..) => "exp_pow2",
            Stmt::MulMany(..) => "mul_many",
            Stmt::Inner(..) => "inner_product",
            Stmt::AssertBool(..) => "assert_bool",
            Stmt::AssertZero(..) => "assert_zero",
            Stmt::Connect(..) => "connect",
            Stmt::DecomposeBits(..) => "decompose_bits",
            Stmt::ReconstructBits(..) => "reconstruct_bits",
            Stmt::DecomposeExt(..) => "decompose_ext",
            Stmt::RecomposeExt(..) => "recompose_ext",
        }
    }
    /// Number of vars this statement defines, given extension degree `d`.
    pub fn n_out(&self, d: usize) -> usize {
        match self {
            Stmt::AssertBool(_) | Stmt::AssertZero(_) | Stmt::Connect(..) => 0,
            Stmt::DecomposeBits(_, n) => *n,
            Stmt::DecomposeExt(_) => d,
            _ => 1,
        }
    }
    pub fn operands(&self) -> Vec<V> {
        match self {
            Stmt::Const(_) | Stmt::Public | Stmt::Private => vec![],
            Stmt::Add(a, b) | Stmt::Sub(a, b) | Stmt::Mul(a, b) | Stmt::Div(a, b) | Stmt::Connect(a, b) => {
                vec![*a, *b]
            }
            Stmt::MulAdd(a, b, c) | Stmt::Select(a, b, c) => vec![*a, *b, *c],
            Stmt::Horner { acc, alpha, z, x } => vec![*acc, *alpha, *z, *x],
            Stmt::ExpPow2(a, _) | Stmt::AssertBool(a) | Stmt::AssertZero(a) | Stmt::DecomposeBits(a, _) => {
                vec![*a]
            }
            Stmt::DecomposeExt(a) => vec![*a],
            Stmt::MulMany(v) | Stmt::ReconstructBits(v) | Stmt::RecomposeExt(v, _) => v.clone(),
            Stmt::Inner(a, b) => a.iter().chain(b.iter()).copied().collect(),
        }
    }
}

#[derive(Clone, Debug, Default, Serialize, Deserialize, PartialEq, Eq)]
pub struct Prog {
    pub stmts: Vec<Stmt>,
    /// Enable the recompose NPO tables on the builder (only meaningful for D > 1).
    #[serde(default)]
    pub recompose_npo: bool,
    /// Packing / flavour of the recompose tables (only with `recompose_npo`, D > 1):
    /// 0 = standard table, one lane; 1 = standard, two lanes; 2 = split `recompose/coeff` tables
    /// (decomposition links routed through the coefficient-lookup table), one lane; 3 = split, two
    /// lanes; 4 = split, three lanes.
    #[serde(default)]
    pub recompose_variant: u8,
}

impl Prog {
    /// (lanes, split coefficient tables) of the recompose tables for this program.
    pub fn recompose_cfg(&self) -> (usize, bool) {
        match self.recompose_variant {
            1 => (2, false),
            2 => (1, true),
            3 => (2, true),
            4 => (3, true),
            _ => (1, false),
        }
    }
    pub fn n_vars(&self, d: usize) -> usize {
        self.stmts.iter().map(|s| s.n_out(d)).sum()
    }
    pub fn n_public(&self) -> usize {
        self.stmts.iter().filter(|s| matches!(s, Stmt::Public)).count()
    }
    pub fn n_private(&self) -> usize {
        self.stmts.iter().filter(|s| matches!(s, Stmt::Private)).count()
    }
    /// For each var, the index of the statement defining it.
    pub fn var_def(&self, d: usize) -> Vec<usize> {
        let mut out = vec![];
        for (i, s) in self.stmts.iter().enumerate() {
            for _ in 0..s.n_out(d) {
                out.push(i);
            }
        }
        out
    }
    pub fn text(&self) -> String {
        let mut s = String::new();
        let mut v = 0usize;
        for st in &self.stmts {
            let n = st.n_out(usize::MAX.min(8)); // display only; ext arity shown as 8 max
            let _ = n;
            s.push_str(&format!("{st:?}; "));
            v += 1;
        }
        let _ = v;
        s
    }
}

/// One asserted relation of the source program, evaluated on concrete values.
#[derive(Clone, Debug, Serialize, Deserialize)]
pub struct Rel {
    pub stmt: usize,
    pub kind: String,
    pub ok: bool,
}

#[derive(Clone, Debug)]
pub struct Eval<E> {
    /// Mathematical value of every var (`None` = undefined: depends on a division by zero or an
    /// impossible decomposition).
    pub vals: Vec<Option<E>>,
    /// Asserted relations (connect, assert_zero, assert_bool, decomposition range) with verdicts.
    pub rels: Vec<Rel>,
    /// A precondition of the source semantics failed somewhere (zero divisor, non-base
    /// coefficient handed to a recomposition): values downstream are unspecified and no claim is
    /// made about the run outcome.
    pub div_zero: bool,
}

impl<E> Eval<E> {
    pub fn all_hold(&self) -> bool {
        self.rels.iter().all(|r| r.ok)
    }
    pub fn failing(&self) -> Vec<&Rel> {
        self.rels.iter().filter(|r| !r.ok).collect()
    }
}

fn is_bool<E: Field>(x: E) -> bool {
    x == E::ZERO || x == E::ONE
}

/// Bits per base-field limb as used by `decompose_to_bits` / `reconstruct_index_from_bits`.
pub fn limb_bits<S: Setup>() -> usize {
    <S::B as Field>::bits()
}

/// Mathematical recomposition of little-endian bits (limb-wise), as documented for
/// `reconstruct_index_from_bits`.
pub fn recompose_bits<S: Setup>(bits: &[S::E]) -> S::E {
    let w = limb_bits::<S>();
    let mut acc = S::E::ZERO;
    for (i, chunk) in bits.chunks(w).enumerate() {
        let mut e = vec![0u64; S::D];
        e[i] = 1;
        let e_i = S::el(&e);
        for (j, b) in chunk.iter().enumerate() {
            let p2 = S::B::from_u64(1u64 << j);
            acc += *b * (e_i * p2);
        }
    }
    acc
}

/// Canonical bit decomposition of `x` into `n` bits (limb-wise little endian); `None` if `x`
/// does not fit.
pub fn canonical_bits<S: Setup>(x: &S::E, n: usize) -> Option<Vec<S::E>> {
    let w = limb_bits::<S>();
    let coeffs = S::coeffs(x);
    let mut out = Vec::with_capacity(n);
    for (i, c) in coeffs.iter().enumerate() {
        for j in 0..w {
            let bit = (c >> j) & 1;
            let pos = i * w + j;
            if pos < n {
                out.push(if bit == 1 { S::E::ONE } else { S::E::ZERO });
            } else if bit == 1 {
                return None;
            }
        }
    }
    out.truncate(n);
    while out.len() < n {
        out.push(S::E::ZERO);
    }
    Some(out)
}

pub fn basis_recompose<S: Setup>(coeffs: &[S::E]) -> S::E {
    let mut acc = S::E::ZERO;
    for (i, c) in coeffs.iter().enumerate() {
        let mut e = vec![0u64; S::D];
        e[i] = 1;
        acc += *c * S::el(&e);
    }
    acc
}

pub fn is_base<S: Setup>(x: &S::E) -> bool {
    S::coeffs(x).iter().skip(1).all(|c| *c == 0)
}

/// O1: evaluate the program mathematically over the field.
pub fn eval<S: Setup>(prog: &Prog, publics: &[S::E], privates: &[S::E]) -> Eval<S::E> {
    let mut vals: Vec<Option<S::E>> = Vec::new();
    let mut rels = vec![];
    let mut div_zero = false;
    let (mut np, mut nq) = (0usize, 0usize);
    let g = |vals: &Vec<Option<S::E>>, v: V| -> Option<S::E> { vals[v] };
    for (si, st) in prog.stmts.iter().enumerate() {
        match st {
            Stmt::Const(c) => vals.push(Some(S::el(c))),
            Stmt::Public => {
                vals.push(Some(publics[np]));
                np += 1;
            }
            Stmt::Private => {
                vals.push(Some(privates[nq]));
                nq += 1;
            }
            Stmt::Add(a, b) => vals.push(g(&vals, *a).zip(g(&vals, *b)).map(|(a, b)| a + b)),
            Stmt::Sub(a, b) => vals.push(g(&vals, *a).zip(g(&vals, *b)).map(|(a, b)| a - b)),
            Stmt::Mul(a, b) => vals.push(g(&vals, *a).zip(g(&vals, *b)).map(|(a, b)| a * b)),
            Stmt::Div(a, b) => {
                let r = match (g(&vals, *a), g(&vals, *b)) {
                    (Some(a), Some(b)) => {
                        if b == S::E::ZERO {
                            div_zero = true;
                            None
                        } else {
                            Some(a * b.inverse())
                        }
                    }
                    _ => None,
                };
                vals.push(r);
            }
            Stmt::MulAdd(a, b, c) => {
                let r = match (g(&vals, *a), g(&vals, *b), g(&vals, *c)) {
                    (Some(a), Some(b), Some(c)) => Some(a * b + c),
                    _ => None,
                };
                vals.push(r);
            }
            Stmt::Horner { acc, alpha, z, x } => {
                let r = match (g(&vals, *acc), g(&vals, *alpha), g(&vals, *z), g(&vals, *x)) {
                    (Some(acc), Some(al), Some(z), Some(x)) => Some(acc * al + z - x),
                    _ => None,
                };
                vals.push(r);
            }
            Stmt::Select(b, t, s) => {
                let r = match (g(&vals, *b), g(&vals, *t), g(&vals, *s)) {
                    (Some(b), Some(t), Some(s)) => Some(s + b * (t - s)),
                    _ => None,
                };
                vals.push(r);
            }
            Stmt::ExpPow2(a, k) => {
                vals.push(g(&vals, *a).map(|mut x| {
                    for _ in 0..*k {
                        x = x * x;
                    }
                    x
                }));
            }
            Stmt::MulMany(vs) => {
                let mut acc = Some(S::E::ONE);
                for v in vs {
                    acc = acc.zip(g(&vals, *v)).map(|(a, b)| a * b);
                }
                vals.push(acc);
            }
            Stmt::Inner(a, b) => {
                let mut acc = Some(S::E::ZERO);
                for (x, y) in a.iter().zip(b.iter()) {
                    acc = match (acc, g(&vals, *x), g(&vals, *y)) {
                        (Some(acc), Some(x), Some(y)) => Some(acc + x * y),
                        _ => None,
                    };
                }
                vals.push(acc);
            }
            Stmt::AssertBool(a) => rels.push(Rel {
                stmt: si,
                kind: "assert_bool".into(),
                ok: g(&vals, *a).map(is_bool).unwrap_or(false),
            }),
            Stmt::AssertZero(a) => rels.push(Rel {
                stmt: si,
                kind: "assert_zero".into(),
                ok: g(&vals, *a).map(|x| x == S::E::ZERO).unwrap_or(false),
            }),
            Stmt::Connect(a, b) => rels.push(Rel {
                stmt: si,
                kind: "connect".into(),
                ok: match (g(&vals, *a), g(&vals, *b)) {
                    (Some(a), Some(b)) => a == b,
                    _ => false,
                },
            }),
            Stmt::DecomposeBits(x, n) => {
                let bits = g(&vals, *x).and_then(|x| canonical_bits::<S>(&x, *n));
                rels.push(Rel {
                    stmt: si,
                    kind: "decompose_bits_range".into(),
                    ok: bits.is_some(),
                });
                match bits {
                    Some(b) => vals.extend(b.into_iter().map(Some)),
                    None => vals.extend(std::iter::repeat_n(None, *n)),
                }
            }
            Stmt::ReconstructBits(bs) => {
                let bv: Option<Vec<S::E>> = bs.iter().map(|b| g(&vals, *b)).collect();
                for (k, b) in bs.iter().enumerate() {
                    rels.push(Rel {
                        stmt: si,
                        kind: format!("reconstruct_bit_bool[{k}]"),
                        ok: g(&vals, *b).map(is_bool).unwrap_or(false),
                    });
                }
                vals.push(bv.map(|b| recompose_bits::<S>(&b)));
            }
            Stmt::DecomposeExt(x) => match g(&vals, *x) {
                Some(x) => {
                    for c in S::coeffs(&x) {
                        vals.push(Some(S::el(&[c])));
                    }
                }
                None => vals.extend(std::iter::repeat_n(None, S::D)),
            },
            Stmt::RecomposeExt(cs, _) => {
                let cv: Option<Vec<S::E>> = cs.iter().map(|c| g(&vals, *c)).collect();
                // The documented precondition: each coefficient is a base-field element. It is
                // not an asserted relation; when it does not hold the value is unspecified.
                let cv = match cv {
                    Some(cv) if cv.iter().any(|c| !is_base::<S>(c)) => {
                        div_zero = true;
                        None
                    }
                    other => other,
                };
                vals.push(cv.map(|c| basis_recompose::<S>(&c)));
            }
        }
    }
    Eval {
        vals,
        rels,
        div_zero,
    }
}

pub struct Built<S: Setup> {
    pub circuit: Circuit<S::E>,
    /// ExprId of every var.
    pub var_expr: Vec<ExprId>,
    pub snapshot: VerifSnapshot<S::E>,
}

/// Replay the program into a real `CircuitBuilder` through its public API.
pub fn build<S: Setup>(prog: &Prog) -> Result<Built<S>, CircuitBuilderError> {
    let mut b = CircuitBuilder::<S::E>::new();
    if prog.recompose_npo && S::D > 1 {
        b.enable_recompose::<S::B>(p3_circuit::ops::generate_recompose_trace::<S::B, S::E>);
        if prog.recompose_cfg().1 {
            b.set_recompose_coeff_ctl_for_decompose_links(true);
        }
    }
    let mut vars: Vec<ExprId> = vec![];
    for st in &prog.stmts {
        match st {
            Stmt::Const(c) => vars.push(b.define_const(S::el(c))),
            Stmt::Public => vars.push(b.public_input()),
            Stmt::Private => vars.push(b.alloc_private_input("p")),
            Stmt::Add(x, y) => vars.push(b.add(vars[*x], vars[*y])),
            Stmt::Sub(x, y) => vars.push(b.sub(vars[*x], vars[*y])),
            Stmt::Mul(x, y) => vars.push(b.mul(vars[*x], vars[*y])),
            Stmt::Div(x, y) => vars.push(b.div(vars[*x], vars[*y])),
            Stmt::MulAdd(x, y, z) => vars.push(b.mul_add(vars[*x], vars[*y], vars[*z])),
            Stmt::Horner { acc, alpha, z, x } => {
                vars.push(b.horner_acc_step(vars[*acc], vars[*alpha], vars[*z], vars[*x]))
            }
            Stmt::Select(c, t, s) => vars.push(b.select(vars[*c], vars[*t], vars[*s])),
            Stmt::ExpPow2(x, k) => vars.push(b.exp_power_of_2(vars[*x], *k)),
            Stmt::MulMany(vs) => {
                let es: Vec<ExprId> = vs.iter().map(|v| vars[*v]).collect();
                vars.push(b.mul_many(&es));
            }
            Stmt::Inner(xs, ys) => {
                let ex: Vec<ExprId> = xs.iter().map(|v| vars[*v]).collect();
                let ey: Vec<ExprId> = ys.iter().map(|v| vars[*v]).collect();
                vars.push(b.inner_product(&ex, &ey));
            }
            Stmt::AssertBool(x) => b.assert_bool(vars[*x]),
            Stmt::AssertZero(x) => b.assert_zero(vars[*x]),
            Stmt::Connect(x, y) => b.connect(vars[*x], vars[*y]),
            Stmt::DecomposeBits(x, n) => {
                let bits = b.decompose_to_bits::<S::B>(vars[*x], *n)?;
                vars.extend(bits);
            }
            Stmt::ReconstructBits(bs) => {
                let es: Vec<ExprId> = bs.iter().map(|v| vars[*v]).collect();
                vars.push(b.reconstruct_index_from_bits::<S::B>(&es)?);
            }
            Stmt::DecomposeExt(x) => {
                let cs = b.decompose_ext_to_base_coeffs::<S::B>(vars[*x])?;
                vars.extend(cs);
            }
            Stmt::RecomposeExt(cs, mode) => {
                let es: Vec<ExprId> = cs.iter().map(|v| vars[*v]).collect();
                let r = match mode {
                    1 => b.recompose_base_coeffs_to_ext_with_coeff_lookups::<S::B>(&es)?,
                    2 => b.recompose_base_coeffs_to_ext_via_alu::<S::B>(&es)?,
                    _ => b.recompose_base_coeffs_to_ext::<S::B>(&es)?,
                };
                vars.push(r);
            }
        }
    }
    // A few tags so that the `Traces::probe` path is exercised too.
    for (i, e) in vars.iter().enumerate().take(8) {
        b.tag(*e, format!("v{i}"))?;
    }
    let snapshot = b.verif_snapshot();
    let circuit = b.build()?;
    Ok(Built {
        circuit,
        var_expr: vars,
        snapshot,
    })
}

pub fn order_u64<S: Setup>() -> u64 {
    <S::B as PrimeField64>::ORDER_U64
}

/// Evaluate the source program's relations *locally* on an arbitrary slot assignment:
/// every statement's definition / assertion is checked on the values held by the slots of its
/// result and operand expressions. Returns the failing relations.
pub fn check_source_on_slots<S: Setup>(
    prog: &Prog,
    var_val: &dyn Fn(V) -> S::E,
    publics: &[S::E],
) -> Vec<Rel> {
    let mut fails = vec![];
    let mut next_var = 0usize;
    let mut np = 0usize;
    let mut fail = |si: usize, kind: String| {
        fails.push(Rel {
            stmt: si,
            kind,
            ok: false,
        })
    };
    for (si, st) in prog.stmts.iter().enumerate() {
        let r = next_var; // first result var of this statement
        next_var += st.n_out(S::D);
        let v = var_val;
        match st {
            Stmt::Const(c) => {
                if v(r) != S::el(c) {
                    fail(si, "const-def".into());
                }
            }
            Stmt::Public => {
                if v(r) != publics[np] {
                    fail(si, "public-def".into());
                }
                np += 1;
            }
            Stmt::Private => {}
            Stmt::Add(a, b) => {
                if v(r) != v(*a) + v(*b) {
                    fail(si, "add-def".into());
                }
            }
            Stmt::Sub(a, b) => {
                if v(r) != v(*a) - v(*b) {
                    fail(si, "sub-def".into());
                }
            }
            Stmt::Mul(a, b) => {
                if v(r) != v(*a) * v(*b) {
                    fail(si, "mul-def".into());
                }
            }
            Stmt::Div(a, b) => {
                if v(r) * v(*b) != v(*a) {
                    fail(si, "div-def".into());
                }
            }
            Stmt::MulAdd(a, b, c) => {
                if v(r) != v(*a) * v(*b) + v(*c) {
                    fail(si, "mul_add-def".into());
                }
            }
            Stmt::Horner { acc, alpha, z, x } => {
                if v(r) != v(*acc) * v(*alpha) + v(*z) - v(*x) {
                    fail(si, "horner-def".into());
                }
            }
            Stmt::Select(b, t, s) => {
                if v(r) != v(*s) + v(*b) * (v(*t) - v(*s)) {
                    fail(si, "select-def".into());
                }
            }
            Stmt::ExpPow2(a, k) => {
                let mut x = v(*a);
                for _ in 0..*k {
                    x = x * x;
                }
                if v(r) != x {
                    fail(si, "exp_pow2-def".into());
                }
            }
            Stmt::MulMany(vs) => {
                let p = vs.iter().fold(S::E::ONE, |acc, x| acc * v(*x));
                if v(r) != p {
                    fail(si, "mul_many-def".into());
                }
            }
            Stmt::Inner(a, b) => {
                let p = a.iter().zip(b.iter()).fold(S::E::ZERO, |acc, (x, y)| acc + v(*x) * v(*y));
                if v(r) != p {
                    fail(si, "inner-def".into());
                }
            }
            Stmt::AssertBool(a) => {
                if !is_bool(v(*a)) {
                    fail(si, "assert_bool".into());
                }
            }
            Stmt::AssertZero(a) => {
                if v(*a) != S::E::ZERO {
                    fail(si, "assert_zero".into());
                }
            }
            Stmt::Connect(a, b) => {
                if v(*a) != v(*b) {
                    fail(si, "connect".into());
                }
            }
            Stmt::DecomposeBits(x, n) => {
                let bits: Vec<S::E> = (r..r + n).map(&v).collect();
                if bits.iter().any(|b| !is_bool(*b)) {
                    fail(si, "decompose_bits-bool".into());
                }
                if recompose_bits::<S>(&bits) != v(*x) {
                    fail(si, "decompose_bits-sum".into());
                }
            }
            Stmt::ReconstructBits(bs) => {
                let bits: Vec<S::E> = bs.iter().map(|b| v(*b)).collect();
                if bits.iter().any(|b| !is_bool(*b)) {
                    fail(si, "reconstruct_bits-bool".into());
                }
                if recompose_bits::<S>(&bits) != v(r) {
                    fail(si, "reconstruct_bits-def".into());
                }
            }
            Stmt::DecomposeExt(x) => {
                let cs: Vec<S::E> = (r..r + S::D).map(&v).collect();
                if basis_recompose::<S>(&cs) != v(*x) {
                    fail(si, "decompose_ext-sum".into());
                }
            }
            Stmt::RecomposeExt(cs, _) => {
                let cv: Vec<S::E> = cs.iter().map(|c| v(*c)).collect();
                if basis_recompose::<S>(&cv) != v(r) {
                    fail(si, "recompose_ext-def".into());
                }
            }
        }
    }
    fails
}

/// Remove statement `si` if none of its result vars is used later; returns the renumbered
/// program and which public / private input positions were dropped.
pub fn remove_stmt(prog: &Prog, d: usize, si: usize) -> Option<(Prog, Option<usize>, Option<usize>)> {
    let mut first = 0usize;
    for s in &prog.stmts[..si] {
        first += s.n_out(d);
    }
    let n = prog.stmts[si].n_out(d);
    for s in &prog.stmts[si + 1..] {
        if s.operands().iter().any(|v| *v >= first && *v < first + n) {
            return None;
        }
    }
    let map = |v: V| if v >= first + n { v - n } else { v };
    let mut stmts = vec![];
    for (i, s) in prog.stmts.iter().enumerate() {
        if i == si {
            continue;
        }
        let s2 = if i < si {
            s.clone()
        } else {
            match s {
                Stmt::Const(_) | Stmt::Public | Stmt::Private => s.clone(),
                Stmt::Add(a, b) => Stmt::Add(map(*a), map(*b)),
                Stmt::Sub(a, b) => Stmt::Sub(map(*a), map(*b)),
                Stmt::Mul(a, b) => Stmt::Mul(map(*a), map(*b)),
                Stmt::Div(a, b) => Stmt::Div(map(*a), map(*b)),
                Stmt::MulAdd(a, b, c) => Stmt::MulAdd(map(*a), map(*b), map(*c)),
                Stmt::Horner { acc, alpha, z, x } => Stmt::Horner {
                    acc: map(*acc),
                    alpha: map(*alpha),
                    z: map(*z),
                    x: map(*x),
                },
                Stmt::Select(a, b, c) => Stmt::Select(map(*a), map(*b), map(*c)),
                Stmt::ExpPow2(a, k) => Stmt::ExpPow2(map(*a), *k),
                Stmt::MulMany(v) => Stmt::MulMany(v.iter().map(|x| map(*x)).collect()),
                Stmt::Inner(a, b) => Stmt::Inner(
                    a.iter().map(|x| map(*x)).collect(),
                    b.iter().map(|x| map(*x)).collect(),
                ),
                Stmt::AssertBool(a) => Stmt::AssertBool(map(*a)),
                Stmt::AssertZero(a) => Stmt::AssertZero(map(*a)),
                Stmt::Connect(a, b) => Stmt::Connect(map(*a), map(*b)),
                Stmt::DecomposeBits(a, k) => Stmt::DecomposeBits(map(*a), *k),
                Stmt::ReconstructBits(v) => Stmt::ReconstructBits(v.iter().map(|x| map(*x)).collect()),
                Stmt::DecomposeExt(a) => Stmt::DecomposeExt(map(*a)),
                Stmt::RecomposeExt(v, m) => Stmt::RecomposeExt(v.iter().map(|x| map(*x)).collect(), *m),
            }
        };
        stmts.push(s2);
    }
    let pub_pos = matches!(prog.stmts[si], Stmt::Public)
        .then(|| prog.stmts[..si].iter().filter(|s| matches!(s, Stmt::Public)).count());
    let priv_pos = matches!(prog.stmts[si], Stmt::Private)
        .then(|| prog.stmts[..si].iter().filter(|s| matches!(s, Stmt::Private)).count());
    Some((
        Prog {
            stmts,
            recompose_npo: prog.recompose_npo,
            recompose_variant: prog.recompose_variant,
        },
        pub_pos,
        priv_pos,
    ))
}

/// Greedy statement-deletion shrinker: keeps deleting statements while `still_fails` holds.
pub fn shrink<S: Setup>(
    prog: &Prog,
    publics: &[S::E],
    privates: &[S::E],
    still_fails: &dyn Fn(&Prog, &[S::E], &[S::E]) -> bool,
) -> (Prog, Vec<S::E>, Vec<S::E>) {
    let (mut p, mut pu, mut pr) = (prog.clone(), publics.to_vec(), privates.to_vec());
    let mut budget = 400usize;
    loop {
        let mut progressed = false;
        let mut i = p.stmts.len();
        while i > 0 {
            i -= 1;
            if budget == 0 {
                return (p, pu, pr);
            }
            if let Some((p2, dp, dq)) = remove_stmt(&p, S::D, i) {
                let mut pu2 = pu.clone();
                let mut pr2 = pr.clone();
                if let Some(k) = dp {
                    pu2.remove(k);
                }
                if let Some(k) = dq {
                    pr2.remove(k);
                }
                budget -= 1;
                if still_fails(&p2, &pu2, &pr2) {
                    p = p2;
                    pu = pu2;
                    pr = pr2;
                    progressed = true;
                }
            }
        }
        if !progressed {
            return (p, pu, pr);
        }
    }
}

/// Known-finding trigger (see known_findings.jsonl, C02 `ext-selector-select-then-decompose_ext`):
/// a `select` whose selector value has non-zero higher extension coefficients, followed by any
/// `decompose_ext_to_base_coeffs` (the coefficient-wise select shortcut is only linear over the
/// base field).
pub fn trigger_ext_selector_decompose<S: Setup>(prog: &Prog, ev: &Eval<S::E>) -> bool {
    if S::D == 1 {
        return false;
    }
    let mut ext_select_seen = false;
    for st in &prog.stmts {
        match st {
            Stmt::Select(b, _, _) => {
                if let Some(Some(v)) = ev.vals.get(*b) {
                    if !is_base::<S>(v) {
                        ext_select_seen = true;
                    }
                }
            }
            Stmt::DecomposeExt(_) if ext_select_seen => return true,
            _ => {}
        }
    }
    false
}
