//! O2: independent evaluator of the relations carried by `Circuit::ops` (what the proof
//! system is told to enforce), written from the documented op semantics (DESIGN.md appendix A),
//! not from the runner.

use p3_circuit::ops::NpoTypeId;
use p3_circuit::{AluOpKind, Circuit, Op, WitnessId};
use p3_field::{Field, PrimeCharacteristicRing};
use rand::RngExt;
use rand::rngs::SmallRng;

use crate::fields::Setup;
use crate::prog::{basis_recompose, is_base};
use crate::util::chance;

#[derive(Clone, Debug)]
pub struct OpFail {
    pub op_index: usize,
    pub why: String,
}

fn wv<E: Copy>(w: &[E], id: WitnessId) -> E {
    w[id.0 as usize]
}

/// Describe an op without executor internals (for samples / replay files).
pub fn op_text<E: Field>(op: &Op<E>) -> String {
    match op {
        Op::Const { out, val } => format!("Const {out} = {val:?}"),
        Op::Public { out, public_pos } => format!("Public {out} <- pub[{public_pos}]"),
        Op::Alu {
            kind,
            a,
            b,
            c,
            out,
            intermediate_out,
        } => format!(
            "{kind:?} a={a} b={b} c={} out={out} io={}",
            c.map(|c| c.to_string()).unwrap_or("-".into()),
            intermediate_out.map(|c| c.to_string()).unwrap_or("-".into())
        ),
        Op::Hint { inputs, outputs, .. } => format!("Hint {inputs:?} -> {outputs:?}"),
        Op::NonPrimitiveOpWithExecutor {
            inputs,
            outputs,
            executor,
            op_id,
        } => format!("NPO {:?} {op_id} {inputs:?} -> {outputs:?}", executor.op_type()),
    }
}

pub fn ops_text<E: Field>(c: &Circuit<E>) -> Vec<String> {
    let mut v: Vec<String> = c.ops.iter().map(op_text).collect();
    v.push(format!(
        "public_rows={:?} private_rows={:?} rewrite={:?} witness_count={}",
        c.public_rows,
        c.private_input_rows,
        c.witness_rewrite.as_ref().map(|m| {
            let mut x: Vec<_> = m.iter().map(|(a, b)| (a.0, b.0)).collect();
            x.sort();
            x
        }),
        c.witness_count
    ));
    v
}

/// Does the NPO carry a relation this evaluator models? Returns `Err` for unsupported NPOs.
fn npo_check<S: Setup>(
    op_type: &NpoTypeId,
    inputs: &[Vec<WitnessId>],
    outputs: &[Vec<WitnessId>],
    w: &[S::E],
) -> Result<Option<String>, String> {
    if *op_type == NpoTypeId::recompose() || *op_type == NpoTypeId::recompose_with_coeff_lookups() {
        let cs: Vec<S::E> = inputs.iter().flatten().map(|i| wv(w, *i)).collect();
        let out = outputs
            .iter()
            .flatten()
            .next()
            .map(|o| wv(w, *o))
            .ok_or("recompose without output")?;
        if cs.len() != S::D {
            return Err(format!("recompose arity {}", cs.len()));
        }
        if basis_recompose::<S>(&cs) != out {
            return Ok(Some("recompose: out != sum coeff_i * basis_i".into()));
        }
        if cs.iter().any(|c| !is_base::<S>(c)) {
            return Ok(Some("recompose: non-base coefficient".into()));
        }
        return Ok(None);
    }
    Err(format!("unsupported NPO {op_type:?}"))
}

/// Check every op relation on a full assignment. `Err` = evaluator cannot model some op.
pub fn check_ops<S: Setup>(
    circuit: &Circuit<S::E>,
    w: &[S::E],
    publics: &[S::E],
) -> Result<Vec<OpFail>, String> {
    let mut fails = vec![];
    let mut fail = |i: usize, why: &str| {
        fails.push(OpFail {
            op_index: i,
            why: why.to_string(),
        })
    };
    for (i, op) in circuit.ops.iter().enumerate() {
        match op {
            Op::Const { out, val } => {
                if wv(w, *out) != *val {
                    fail(i, "const");
                }
            }
            Op::Public { out, public_pos } => {
                if wv(w, *out) != publics[*public_pos] {
                    fail(i, "public");
                }
            }
            Op::Alu {
                kind,
                a,
                b,
                c,
                out,
                intermediate_out,
            } => {
                let (va, vb, vo) = (wv(w, *a), wv(w, *b), wv(w, *out));
                match kind {
                    AluOpKind::Add => {
                        if va + vb != vo {
                            fail(i, "add");
                        }
                    }
                    AluOpKind::Mul => {
                        if va * vb != vo {
                            fail(i, "mul");
                        }
                    }
                    AluOpKind::BoolCheck => {
                        if !(va == S::E::ZERO || va == S::E::ONE) {
                            fail(i, "bool");
                        }
                        if vo != va {
                            fail(i, "bool-out");
                        }
                    }
                    AluOpKind::MulAdd => {
                        let vc = c.map(|c| wv(w, c)).unwrap_or(S::E::ZERO);
                        if va * vb + vc != vo {
                            fail(i, "muladd");
                        }
                    }
                    AluOpKind::HornerAcc => {
                        let vc = c.map(|c| wv(w, c)).ok_or("horner without c")?;
                        let acc = intermediate_out.map(|c| wv(w, c)).ok_or("horner without acc")?;
                        if acc * vb + vc - va != vo {
                            fail(i, "horner");
                        }
                    }
                }
            }
            Op::Hint { .. } => {}
            Op::NonPrimitiveOpWithExecutor {
                inputs,
                outputs,
                executor,
                ..
            } => {
                if let Some(why) = npo_check::<S>(executor.op_type(), inputs, outputs, w)? {
                    fail(i, &why);
                }
            }
        }
    }
    Ok(fails)
}

#[derive(Clone, Copy, Debug, PartialEq, Eq)]
pub enum Adversary {
    /// Free slots get the values the honest runner would give them where it defines any,
    /// random otherwise.
    Honestish,
    /// Free slots (fused-product intermediates, slots no relation forces) get random values.
    Random,
}

/// Adversarial completion: produce a full assignment that satisfies every op relation, giving
/// slots that no relation forces prover-chosen values. Returns `Ok(None)` when the chosen inputs
/// admit no such assignment along this strategy (a conflict arose).
pub fn adversarial_complete<S: Setup>(
    circuit: &Circuit<S::E>,
    publics: &[S::E],
    privates: &[S::E],
    rng: &mut SmallRng,
    adv: Adversary,
) -> Result<Option<Vec<S::E>>, String> {
    let n = circuit.witness_count as usize;
    let mut w: Vec<Option<S::E>> = vec![None; n];
    let rnd = |rng: &mut SmallRng| -> S::E {
        if chance(rng, 1, 2) {
            S::el(&[rng.random_range(0..7u64)])
        } else {
            let c: Vec<u64> = (0..S::D).map(|_| rng.random::<u64>() % S::order()).collect();
            S::el(&c)
        }
    };
    // Private inputs are free in the source too; start from the given values.
    for (i, wid) in circuit.private_input_rows.iter().enumerate() {
        if let Some(v) = privates.get(i) {
            let slot = &mut w[wid.0 as usize];
            if slot.is_none() {
                *slot = Some(*v);
            }
        }
    }
    macro_rules! set {
        ($id:expr, $v:expr) => {{
            let slot = &mut w[$id.0 as usize];
            match slot {
                Some(e) if *e != $v => return Ok(None),
                Some(_) => {}
                None => *slot = Some($v),
            }
        }};
    }
    macro_rules! get_or_free {
        ($id:expr) => {{
            let slot = &mut w[$id.0 as usize];
            match slot {
                Some(e) => *e,
                None => {
                    let v = rnd(rng);
                    *slot = Some(v);
                    v
                }
            }
        }};
    }
    for op in circuit.ops.iter() {
        match op {
            Op::Const { out, val } => set!(out, *val),
            Op::Public { out, public_pos } => set!(out, publics[*public_pos]),
            Op::Alu {
                kind,
                a,
                b,
                c,
                out,
                intermediate_out,
            } => match kind {
                AluOpKind::Add => {
                    let va = get_or_free!(a);
                    match (w[b.0 as usize], w[out.0 as usize]) {
                        (Some(vb), _) => set!(out, va + vb),
                        (None, Some(vo)) => set!(b, vo - va),
                        (None, None) => {
                            let vb = rnd(rng);
                            set!(b, vb);
                            set!(out, va + vb);
                        }
                    }
                }
                AluOpKind::Mul => {
                    let va = get_or_free!(a);
                    match (w[b.0 as usize], w[out.0 as usize]) {
                        (Some(vb), _) => set!(out, va * vb),
                        (None, Some(vo)) => {
                            if va == S::E::ZERO {
                                if vo != S::E::ZERO {
                                    return Ok(None);
                                }
                                let vb = rnd(rng);
                                set!(b, vb);
                            } else {
                                set!(b, vo * va.inverse());
                            }
                        }
                        (None, None) => {
                            let vb = rnd(rng);
                            set!(b, vb);
                            set!(out, va * vb);
                        }
                    }
                }
                AluOpKind::BoolCheck => {
                    let va = get_or_free!(a);
                    if !(va == S::E::ZERO || va == S::E::ONE) {
                        return Ok(None);
                    }
                    set!(out, va);
                }
                AluOpKind::MulAdd => {
                    let va = get_or_free!(a);
                    let vb = get_or_free!(b);
                    let vc = match c {
                        Some(c) => get_or_free!(c),
                        None => S::E::ZERO,
                    };
                    if let Some(io) = intermediate_out {
                        // No relation constrains the fused product's own slot.
                        if w[io.0 as usize].is_none() {
                            let v = match adv {
                                Adversary::Honestish => va * vb,
                                Adversary::Random => rnd(rng),
                            };
                            w[io.0 as usize] = Some(v);
                        }
                    }
                    set!(out, va * vb + vc);
                }
                AluOpKind::HornerAcc => {
                    let va = get_or_free!(a);
                    let vb = get_or_free!(b);
                    let c = c.ok_or("horner without c")?;
                    let vc = get_or_free!(c);
                    let acc = intermediate_out.ok_or("horner without acc")?;
                    let vacc = get_or_free!(acc);
                    set!(out, vacc * vb + vc - va);
                }
            },
            Op::Hint {
                inputs,
                outputs,
                executor,
            } => {
                for i in inputs {
                    let _ = get_or_free!(i);
                }
                let honest = adv == Adversary::Honestish || chance(rng, 2, 3);
                if honest {
                    if executor.execute(inputs, outputs, &mut w).is_err() {
                        return Ok(None);
                    }
                } else {
                    for o in outputs {
                        let _ = get_or_free!(o);
                    }
                }
            }
            Op::NonPrimitiveOpWithExecutor {
                inputs,
                outputs,
                executor,
                ..
            } => {
                let t = executor.op_type();
                if *t == NpoTypeId::recompose() || *t == NpoTypeId::recompose_with_coeff_lookups() {
                    let mut cs = vec![];
                    for i in inputs.iter().flatten() {
                        cs.push(get_or_free!(i));
                    }
                    if cs.iter().any(|c| !is_base::<S>(c)) {
                        return Ok(None);
                    }
                    let v = basis_recompose::<S>(&cs);
                    if let Some(o) = outputs.iter().flatten().next() {
                        set!(o, v);
                    }
                } else {
                    return Err(format!("unsupported NPO {t:?}"));
                }
            }
        }
    }
    // Slots nobody touched (e.g. de-duplicated outputs that only the runner back-fills).
    if adv == Adversary::Honestish {
        // The honest runner back-fills de-duplicated slots from their canonical slot.
        if let Some(rw) = &circuit.witness_rewrite {
            for (dup, canon) in rw.iter() {
                let root = canon.resolve(rw);
                if w[dup.0 as usize].is_none() {
                    w[dup.0 as usize] = w[root.0 as usize];
                }
            }
        }
    }
    let full: Vec<S::E> = w
        .into_iter()
        .map(|v| match v {
            Some(v) => v,
            None => rnd(rng),
        })
        .collect();
    // The completion must satisfy every relation when judged on its own.
    let fails = check_ops::<S>(circuit, &full, publics)?;
    if !fails.is_empty() {
        return Ok(None);
    }
    Ok(Some(full))
}

/// Slots that take part in at least one op *relation* (as modelled by this evaluator).
/// `intermediate_out` of a `MulAdd` and hint inputs/outputs carry no relation.
pub fn relation_slots<E: Field>(circuit: &Circuit<E>) -> Vec<bool> {
    let mut r = vec![false; circuit.witness_count as usize];
    let mut mark = |id: &WitnessId| {
        if let Some(s) = r.get_mut(id.0 as usize) {
            *s = true;
        }
    };
    for op in &circuit.ops {
        match op {
            Op::Const { out, .. } | Op::Public { out, .. } => mark(out),
            Op::Alu {
                kind,
                a,
                b,
                c,
                out,
                intermediate_out,
            } => {
                mark(a);
                mark(out);
                if *kind != AluOpKind::BoolCheck {
                    mark(b);
                }
                if matches!(kind, AluOpKind::MulAdd | AluOpKind::HornerAcc) {
                    if let Some(c) = c {
                        mark(c);
                    }
                }
                if *kind == AluOpKind::HornerAcc {
                    if let Some(acc) = intermediate_out {
                        mark(acc);
                    }
                }
            }
            Op::Hint { .. } => {}
            Op::NonPrimitiveOpWithExecutor { inputs, outputs, executor, .. } => {
                inputs.iter().flatten().for_each(&mut mark);
                let n = executor.num_exposed_outputs().unwrap_or(outputs.len());
                outputs.iter().take(n).flatten().for_each(&mut mark);
            }
        }
    }
    r
}

/// Give every *dead* fused-product slot (an `intermediate_out` of a `MulAdd` that no relation
/// refers to) the value `a*b`. Such a slot is not observable by any relation, so the source
/// program's statement is existential in it (slots of program inputs excepted, see below).
pub fn settle_dead_products<E: Field>(circuit: &Circuit<E>, w: &mut [E]) -> usize {
    let live = relation_slots(circuit);
    let mut n = 0;
    for op in &circuit.ops {
        if let Op::Alu {
            kind: AluOpKind::MulAdd,
            a,
            b,
            intermediate_out: Some(io),
            ..
        } = op
        {
            // ...unless the slot is also the slot of a program INPUT (a private or public input
            // connected to the product): an input is part of the assignment the statement
            // quantifies over, its value is not the compiler's to choose
            let is_input = circuit.private_input_rows.iter().chain(circuit.public_rows.iter()).any(|r| r == io);
            if !live[io.0 as usize] && !is_input {
                w[io.0 as usize] = w[a.0 as usize] * w[b.0 as usize];
                n += 1;
            }
        }
    }
    n
}
