//! O3: witness-bus monitor. Replays every lookup tuple of every row of the primitive tables
//! (Const / Public / ALU) from the *real* AIRs, the *real* main matrices and the *real*
//! preprocessed matrices, and aggregates per witness slot. Independent of `circuit.rs`
//! bookkeeping: it observes what the verifier's tables contain.

use std::collections::BTreeMap;

use p3_air::{AirBuilder, BaseAir, RowWindow};
use p3_circuit::{Circuit, Traces};
use p3_circuit_prover::air::{AluAir, ConstAir, PublicAir};
use p3_circuit_prover::common::{CircuitTableAir, NpoAirBuilder, NpoPreprocessor, get_airs_and_degrees_with_prep};
use p3_circuit_prover::config::StarkField;
use p3_circuit_prover::field_params::ExtractBinomialW;
use p3_circuit_prover::{ConstraintProfile, TablePacking};
use p3_field::{Algebra, ExtensionField, Field, PrimeField64};
use p3_lookup::Lookups;
use p3_matrix::Matrix;
use p3_matrix::dense::RowMajorMatrix;
use p3_uni_stark::{StarkGenericConfig, SymbolicExpression, SymbolicExpressionExt, Val};

#[derive(Clone, Debug)]
pub struct BusEvent {
    pub table: &'static str,
    pub row: usize,
    /// Index of the lookup (column of interactions) within the table's AIR.
    pub lookup: usize,
    /// Signed multiplicity (positive = creator / send, negative = reader / receive).
    pub mult: i64,
    /// D-scaled index carried by the tuple.
    pub index: u64,
    /// Value limbs carried by the tuple.
    pub value: Vec<u64>,
}

struct Mini<'a, F: Field> {
    main: RowWindow<'a, F>,
    prep: RowWindow<'a, F>,
    row: usize,
    h: usize,
}

impl<'a, F: Field> AirBuilder for Mini<'a, F> {
    type F = F;
    type Expr = F;
    type Var = F;
    type PreprocessedWindow = RowWindow<'a, F>;
    type MainWindow = RowWindow<'a, F>;
    type PublicVar = F;
    type PeriodicVar = F;
    fn main(&self) -> Self::MainWindow {
        self.main
    }
    fn preprocessed(&self) -> &Self::PreprocessedWindow {
        &self.prep
    }
    fn is_first_row(&self) -> F {
        F::from_bool(self.row == 0)
    }
    fn is_last_row(&self) -> F {
        F::from_bool(self.row + 1 == self.h)
    }
    fn is_transition(&self) -> F {
        F::from_bool(self.row + 1 < self.h)
    }
    fn assert_zero<I: Into<F>>(&mut self, _x: I) {}
    fn public_values(&self) -> &[F] {
        &[]
    }
}

fn signed<F: PrimeField64>(x: F) -> i64 {
    let v = x.as_canonical_u64();
    let p = F::ORDER_U64;
    if v > p / 2 { -((p - v) as i64) } else { v as i64 }
}

fn walk<F: PrimeField64>(
    table: &'static str,
    lookups: &Lookups<F>,
    main: &RowMajorMatrix<F>,
    prep: &RowMajorMatrix<F>,
    out: &mut Vec<BusEvent>,
) -> Result<(), String> {
    let h = main.height();
    if h != prep.height() {
        return Err(format!("{table}: main height {h} != preprocessed height {}", prep.height()));
    }
    for row in 0..h {
        let (ml, mn) = (main.row_slice(row).unwrap(), main.row_slice((row + 1) % h).unwrap());
        let (pl, pn) = (prep.row_slice(row).unwrap(), prep.row_slice((row + 1) % h).unwrap());
        let b = Mini {
            main: RowWindow::from_two_rows(&ml, &mn),
            prep: RowWindow::from_two_rows(&pl, &pn),
            row,
            h,
        };
        for (li, lk) in lookups.iter().enumerate() {
            for (els, m) in lk.elements.iter().zip(lk.multiplicities.iter()) {
                let mult: F = m.resolve(&b);
                if mult.is_zero() {
                    continue;
                }
                let key: Vec<u64> = els
                    .iter()
                    .map(|e: &SymbolicExpression<F>| {
                        let v: F = e.resolve(&b);
                        v.as_canonical_u64()
                    })
                    .collect();
                out.push(BusEvent {
                    table,
                    row,
                    lookup: li,
                    mult: signed(mult),
                    index: key[0],
                    value: key[1..].to_vec(),
                });
            }
        }
    }
    Ok(())
}

/// Replay the WitnessChecks bus of the primitive tables for one honest (or forged) trace.
#[allow(clippy::type_complexity)]
pub fn bus_events<SC, E, const D: usize>(
    circuit: &Circuit<E>,
    traces: &Traces<E>,
    packing: &TablePacking,
    pre: &[Box<dyn NpoPreprocessor<Val<SC>>>],
    airb: &[Box<dyn NpoAirBuilder<SC, D>>],
) -> Result<Vec<BusEvent>, String>
where
    SC: StarkGenericConfig + 'static + Send + Sync,
    E: Field + ExtensionField<Val<SC>> + ExtractBinomialW<Val<SC>>,
    Val<SC>: StarkField + PrimeField64,
    SymbolicExpressionExt<Val<SC>, SC::Challenge>: Algebra<SymbolicExpression<Val<SC>>>,
{
    let (ad, _prim, _np) =
        get_airs_and_degrees_with_prep::<SC, E, D>(circuit, packing, pre, airb, ConstraintProfile::Standard)
            .map_err(|e| format!("{e:?}"))?;
    let min_h = packing.min_trace_height();
    let mut out = vec![];
    for (air, _deg) in &ad {
        match air {
            CircuitTableAir::Const(x) => {
                let lk = Lookups::<Val<SC>>::from_air::<SC::Challenge, ConstAir<Val<SC>, D>>(x);
                let main = ConstAir::<Val<SC>, D>::trace_to_matrix(&traces.const_trace, min_h);
                let prep = x.preprocessed_trace().ok_or("const: no preprocessed trace")?;
                walk("const", &lk, &main, &prep, &mut out)?;
            }
            CircuitTableAir::Public(x) => {
                let lk = Lookups::<Val<SC>>::from_air::<SC::Challenge, PublicAir<Val<SC>, D>>(x);
                let prep = x.preprocessed_trace().ok_or("public: no preprocessed trace")?;
                let main = PublicAir::<Val<SC>, D>::trace_to_matrix(&traces.public_trace, x.lanes, min_h);
                walk("public", &lk, &main, &prep, &mut out)?;
            }
            CircuitTableAir::Alu(x) => {
                let lk = Lookups::<Val<SC>>::from_air::<SC::Challenge, AluAir<Val<SC>, D>>(x);
                let main = x.trace_to_matrix(&traces.alu_trace, min_h);
                let prep = x.preprocessed_trace().ok_or("alu: no preprocessed trace")?;
                walk("alu", &lk, &main, &prep, &mut out)?;
            }
            CircuitTableAir::Dynamic(_) => {}
        }
    }
    Ok(out)
}

#[derive(Clone, Debug, Default)]
pub struct SlotSummary {
    pub creators: usize,
    pub creator_mult: i64,
    pub reads: i64,
    pub net: i64,
    pub values: Vec<Vec<u64>>,
    pub tables: Vec<&'static str>,
}

/// Aggregate events per witness slot (index / D).
pub fn per_slot(events: &[BusEvent], d: usize) -> BTreeMap<u64, SlotSummary> {
    let mut m: BTreeMap<u64, SlotSummary> = BTreeMap::new();
    for e in events {
        let s = m.entry(e.index / d as u64).or_default();
        if e.mult > 0 {
            s.creators += 1;
            s.creator_mult += e.mult;
        } else {
            s.reads += -e.mult;
        }
        s.net += e.mult;
        if !s.values.contains(&e.value) {
            s.values.push(e.value.clone());
        }
        if !s.tables.contains(&e.table) {
            s.tables.push(e.table);
        }
    }
    m
}

/// How each witness slot is defined according to the op list (for classifying bus findings).
pub fn slot_kinds<E: Field>(circuit: &Circuit<E>) -> Vec<Vec<&'static str>> {
    use p3_circuit::Op;
    let n = circuit.witness_count as usize;
    let mut kinds: Vec<Vec<&'static str>> = vec![vec![]; n];
    let mut add = |id: u32, k: &'static str| {
        if let Some(v) = kinds.get_mut(id as usize) {
            v.push(k);
        }
    };
    for w in &circuit.private_input_rows {
        add(w.0, "private");
    }
    let mut defined = vec![false; n];
    for w in &circuit.private_input_rows {
        defined[w.0 as usize] = true;
    }
    for op in &circuit.ops {
        match op {
            Op::Const { out, .. } => {
                add(out.0, "const");
                defined[out.0 as usize] = true;
            }
            Op::Public { out, .. } => {
                add(out.0, "public");
                defined[out.0 as usize] = true;
            }
            Op::Alu { b, out, kind, .. } => {
                if defined[out.0 as usize] && !defined[b.0 as usize] {
                    add(b.0, "alu-solved-b");
                    defined[b.0 as usize] = true;
                } else if defined[out.0 as usize] {
                    add(out.0, "alu-check-out");
                } else {
                    add(
                        out.0,
                        match kind {
                            p3_circuit::AluOpKind::HornerAcc => "horner-out",
                            p3_circuit::AluOpKind::BoolCheck => "bool-out",
                            _ => "alu-out",
                        },
                    );
                    defined[out.0 as usize] = true;
                }
            }
            Op::Hint { outputs, .. } => {
                for o in outputs {
                    add(o.0, "hint-out");
                    defined[o.0 as usize] = true;
                }
            }
            Op::NonPrimitiveOpWithExecutor { outputs, .. } => {
                for o in outputs.iter().flatten() {
                    add(o.0, "npo-out");
                    defined[o.0 as usize] = true;
                }
            }
        }
    }
    kinds
}

/// A bus anomaly at one slot.
#[derive(Clone, Debug)]
pub struct BusAnomaly {
    pub slot: u64,
    /// Stable pattern string: `<definition kinds>/creators=<n>/net=<0|+|->[/values-differ]`.
    pub pattern: String,
    pub summary: SlotSummary,
}

/// C09 oracle on the per-slot aggregation: every slot any row refers to has exactly one creator,
/// creator multiplicity == number of reads (net zero), all tuples carry the same value.
pub fn anomalies<E: Field>(circuit: &Circuit<E>, events: &[BusEvent], d: usize) -> Vec<BusAnomaly> {
    let kinds = slot_kinds(circuit);
    let mut out = vec![];
    for (slot, s) in per_slot(events, d) {
        let bad = s.creators != 1 || s.net != 0 || s.values.len() != 1;
        if !bad {
            continue;
        }
        let mut k: Vec<&str> = kinds.get(slot as usize).cloned().unwrap_or_default();
        k.sort();
        k.dedup_by(|a, b| a == b && *a != "const" && *a != "public");
        let pattern = format!(
            "{}/creators={}/net={}{}",
            if k.is_empty() { "undefined".to_string() } else { k.join("+") },
            s.creators.min(3),
            match s.net {
                0 => "0",
                x if x > 0 => "+",
                _ => "-",
            },
            if s.values.len() > 1 { "/values-differ" } else { "" }
        );
        out.push(BusAnomaly {
            slot,
            pattern,
            summary: s,
        });
    }
    out
}

/// Static look at the rows of the plugin (recompose) tables, for imbalances that only upstream's
/// lookup debugger / the verifier's terminal-sum check can see: which of the constructs that are
/// known to unbalance the bus does the circuit contain? Returns `<flavours>/<primary cause>` with
/// cause `out-multiply-defined` (the row's output slot also has another definer: decomposing an
/// already defined value makes the recompose row a second creator), `input-reused` (a coefficient
/// consumed by several rows / twice by one row) or `no-static-cause`.
pub fn npo_static_cause<E: Field>(circuit: &Circuit<E>) -> String {
    use p3_circuit::Op;
    use p3_circuit::ops::NpoTypeId;
    let kinds = slot_kinds(circuit);
    let mut flavours: Vec<&'static str> = vec![];
    let mut causes: Vec<String> = vec![];
    let mut input_rows: BTreeMap<u32, usize> = BTreeMap::new();
    let mut out_rows: BTreeMap<u32, usize> = BTreeMap::new();
    for op in &circuit.ops {
        if let Op::NonPrimitiveOpWithExecutor { inputs, outputs, executor, .. } = op {
            let t = executor.op_type();
            let fl = if *t == NpoTypeId::recompose() {
                "recompose"
            } else if *t == NpoTypeId::recompose_with_coeff_lookups() {
                "recompose-coeff"
            } else {
                "other-npo"
            };
            if !flavours.contains(&fl) {
                flavours.push(fl);
            }
            let mut seen = vec![];
            for w in inputs.iter().flatten() {
                if !seen.contains(&w.0) {
                    seen.push(w.0);
                    *input_rows.entry(w.0).or_default() += 1;
                } else {
                    causes.push("input-twice-in-one-row".into());
                }
            }
            for w in outputs.iter().flatten() {
                *out_rows.entry(w.0).or_default() += 1;
                let mut others: Vec<&str> = kinds
                    .get(w.0 as usize)
                    .map(|k| k.iter().copied().filter(|x| matches!(*x, "const" | "public" | "private" | "hint-out" | "alu-out" | "horner-out" | "bool-out" | "alu-solved-b")).collect())
                    .unwrap_or_default();
                others.sort();
                others.dedup();
                if !others.is_empty() {
                    causes.push(format!("out-also:{}", others.join("+")));
                }
                if inputs.iter().flatten().any(|i| i == w) {
                    causes.push("out-is-own-input".into());
                }
            }
        }
    }
    if input_rows.values().any(|n| *n >= 2) {
        causes.push("input-in-2+-rows".into());
    }
    if out_rows.values().any(|n| *n >= 2) {
        causes.push("out-of-2+-rows".into());
    }
    // one primary cause (full combinations explode: > 200 distinct strings on the pinned tree)
    let primary = if causes.iter().any(|c| c.starts_with("out-")) || out_rows.values().any(|n| *n >= 2) {
        "out-multiply-defined"
    } else if !causes.is_empty() {
        "input-reused"
    } else {
        "no-static-cause"
    };
    flavours.sort();
    format!("{}/{primary}", flavours.join("+"))
}

/// Root-cause class of a bus anomaly at `slot`, from a static look at the op list. Used in
/// signatures so that the known findings (DESIGN.md §6, C09) stay specific:
/// * `multi-leaf-class`  – the slot is shared (via connect) by >= 2 of {const, public, private
///   input, hint output}: each brings its own creator.
/// * `horner-referenced` – some HornerAcc op refers to the slot (operand, output or accumulator):
///   packed Horner rows account reads / expose outputs differently from the per-op bookkeeping.
/// * `first-use-creator:<position>` – the slot is a private input or hint output, whose creator is
///   the first ALU row using it; `<position>` is where that first use sits (a, b, c, out, several).
/// * `other` – none of the above (plain const/public/ALU role assignment).
pub fn anomaly_class<E: Field>(circuit: &Circuit<E>, slot: u64) -> String {
    use p3_circuit::{AluOpKind, Op};
    let kinds = slot_kinds(circuit);
    let k = kinds.get(slot as usize).cloned().unwrap_or_default();
    let leafs = k
        .iter()
        .filter(|x| matches!(**x, "const" | "public" | "private" | "hint-out"))
        .count();
    if leafs >= 2 {
        return "multi-leaf-class".into();
    }
    let id = slot as u32;
    // slots solved by a backwards add/mul whose `out` is a private input / hint output, or is
    // itself such a solved slot (transitively)
    let mut tainted: Vec<bool> = kinds
        .iter()
        .map(|ko| ko.iter().any(|x| matches!(*x, "private" | "hint-out")))
        .collect();
    let mut solved_from_private = vec![false; kinds.len()];
    for op in &circuit.ops {
        if let Op::Alu { kind, b, out, .. } = op {
            if matches!(kind, AluOpKind::Add | AluOpKind::Mul)
                && kinds[b.0 as usize].contains(&"alu-solved-b")
                && tainted[out.0 as usize]
            {
                solved_from_private[b.0 as usize] = true;
                tainted[b.0 as usize] = true;
            }
        }
    }
    let mut horner = false;
    let mut first_use: Option<String> = None;
    let mut solved_for_private_out = false;
    for op in &circuit.ops {
        if let Op::Alu {
            kind,
            a,
            b,
            c,
            out,
            intermediate_out,
        } = op
        {
            let mut pos = vec![];
            if a.0 == id {
                pos.push("a");
            }
            if b.0 == id && *kind != AluOpKind::BoolCheck {
                pos.push("b");
            }
            if c.is_some_and(|c| c.0 == id) && matches!(kind, AluOpKind::MulAdd | AluOpKind::HornerAcc) {
                pos.push("c");
            }
            if out.0 == id {
                pos.push("out");
            }
            let acc = *kind == AluOpKind::HornerAcc && intermediate_out.is_some_and(|x| x.0 == id);
            if *kind == AluOpKind::HornerAcc && (!pos.is_empty() || acc) {
                horner = true;
            }
            if first_use.is_none() && !pos.is_empty() {
                let leaf = if k.contains(&"private") { "private" } else { "hint-out" };
                first_use = Some(if pos.len() >= 2 && pos.contains(&"out") {
                    // the row's own result slot is the leaf itself (assert_bool(p), an op whose
                    // result is connected to its private operand): role assignment has a dedicated
                    // "aliased by out" guard for this, so it is a class of its own
                    format!("aliased-by-out:{leaf}:{:?}.{}", kind, pos.join("+"))
                } else if pos.len() >= 2 {
                    format!("multi-position:{leaf}:{:?}.{}", kind, pos.join("+"))
                } else {
                    format!("{:?}.{}", kind, pos.join("+"))
                });
            }
            // the slot is the operand a backwards add/mul solves for, and that op's `out` is a
            // private input / hint output (which no earlier op defines)
            if b.0 == id && solved_from_private[id as usize] {
                solved_for_private_out = true;
            }
        }
    }
    if horner {
        return "horner-referenced".into();
    }
    if solved_for_private_out {
        return "solved-operand-of-private-out".into();
    }
    if k.iter().any(|x| matches!(*x, "private" | "hint-out")) {
        return format!("first-use-creator:{}", first_use.unwrap_or_else(|| "none".into()));
    }
    "other".into()
}

/// The main trace matrices (as canonical u64s) the primitive tables would commit to for `traces`.
/// Used to recognise "forgeries" that do not change anything the prover commits.
#[allow(clippy::type_complexity)]
pub fn main_matrices<SC, E, const D: usize>(
    circuit: &Circuit<E>,
    traces: &Traces<E>,
    packing: &TablePacking,
) -> Result<Vec<Vec<u64>>, String>
where
    SC: StarkGenericConfig + 'static + Send + Sync,
    E: Field + ExtensionField<Val<SC>> + ExtractBinomialW<Val<SC>>,
    Val<SC>: StarkField + PrimeField64,
    SymbolicExpressionExt<Val<SC>, SC::Challenge>: Algebra<SymbolicExpression<Val<SC>>>,
{
    let (ad, _prim, _np) =
        get_airs_and_degrees_with_prep::<SC, E, D>(circuit, packing, &[], &[], ConstraintProfile::Standard)
            .map_err(|e| format!("{e:?}"))?;
    let min_h = packing.min_trace_height();
    let mut out = vec![];
    let conv = |m: RowMajorMatrix<Val<SC>>| -> Vec<u64> { m.values.iter().map(|v| v.as_canonical_u64()).collect() };
    for (air, _deg) in &ad {
        match air {
            CircuitTableAir::Const(_) => out.push(conv(ConstAir::<Val<SC>, D>::trace_to_matrix(&traces.const_trace, min_h))),
            CircuitTableAir::Public(x) => {
                out.push(conv(PublicAir::<Val<SC>, D>::trace_to_matrix(&traces.public_trace, x.lanes, min_h)))
            }
            CircuitTableAir::Alu(x) => out.push(conv(x.trace_to_matrix(&traces.alu_trace, min_h))),
            CircuitTableAir::Dynamic(_) => {}
        }
    }
    Ok(out)
}

/// Number of relation references to each slot (operand / output positions of ops whose relation
/// depends on the slot; see `opsem::relation_slots`).
pub fn relation_ref_counts<E: Field>(circuit: &Circuit<E>) -> Vec<usize> {
    use p3_circuit::{AluOpKind, Op};
    let mut r = vec![0usize; circuit.witness_count as usize];
    let mut mark = |id: &p3_circuit::WitnessId| {
        if let Some(s) = r.get_mut(id.0 as usize) {
            *s += 1;
        }
    };
    for op in &circuit.ops {
        match op {
            Op::Const { out, .. } | Op::Public { out, .. } => mark(out),
            Op::Alu { kind, a, b, c, out, intermediate_out } => {
                mark(a);
                mark(out);
                if *kind != AluOpKind::BoolCheck {
                    mark(b);
                }
                if matches!(kind, AluOpKind::MulAdd | AluOpKind::HornerAcc) {
                    if let Some(c) = c {
                        mark(c);
                    }
                }
                if *kind == AluOpKind::HornerAcc {
                    if let Some(acc) = intermediate_out {
                        mark(acc);
                    }
                }
            }
            Op::Hint { .. } => {}
            Op::NonPrimitiveOpWithExecutor { inputs, outputs, .. } => {
                inputs.iter().chain(outputs.iter()).flatten().for_each(&mut mark);
            }
        }
    }
    r
}
