//! G1: random program generator ("values first": every statement is evaluated on a concrete
//! input while the program is being generated, so connects/asserts can be placed between vars
//! whose values agree and the generated input satisfies the program by construction).

use p3_field::{Field, PrimeCharacteristicRing};
use rand::RngExt;
use rand::rngs::SmallRng;

use crate::fields::Setup;
use crate::prog::{Prog, Stmt, V, canonical_bits, is_base, limb_bits};
use crate::util::chance;

#[derive(Clone, Debug)]
pub struct GenOpts {
    pub size: usize,
    /// Allow private inputs.
    pub privates: bool,
    /// Allow bit / extension decompositions (hints).
    pub hints: bool,
    /// Allow horner steps.
    pub horner: bool,
    /// Allow division.
    pub div: bool,
    /// Probability (percent) of a connect-type statement.
    pub connect_pct: u32,
    pub recompose_npo: bool,
    /// Draw the recompose table flavour / lane count (`Prog::recompose_variant`) at random; only
    /// for callers that configure prover and key generation from `fields::RecomposeCfg`.
    pub recompose_variants: bool,
    /// "Clean" programs avoid the constructs that are known (see known_findings.jsonl, C09/C10)
    /// to give unprovable circuits: connect classes with two leaf creators (public / const /
    /// private / hint output), Horner steps outside a proper chain, and a private input used as
    /// the minuend / dividend of a backwards op.
    pub clean: bool,
}

impl Default for GenOpts {
    fn default() -> Self {
        Self {
            size: 20,
            privates: true,
            hints: true,
            horner: true,
            div: true,
            connect_pct: 18,
            recompose_npo: false,
            recompose_variants: false,
            clean: false,
        }
    }
}

pub struct Generated<S: Setup> {
    pub prog: Prog,
    pub publics: Vec<S::E>,
    pub privates: Vec<S::E>,
}

struct G<'a, S: Setup> {
    rng: &'a mut SmallRng,
    prog: Prog,
    vals: Vec<S::E>,
    /// kind of defining stmt per var
    kinds: Vec<&'static str>,
    publics: Vec<S::E>,
    privates: Vec<S::E>,
    last_horner: Option<V>,
    opts: GenOpts,
    /// connect classes (union-find parent) and number of leaf creators per class root
    cls: Vec<usize>,
    leafs: Vec<u32>,
}

fn small_val<S: Setup>(rng: &mut SmallRng) -> S::E {
    let r = rng.random_range(0..100u32);
    if r < 55 {
        S::el(&[rng.random_range(0..4u64)])
    } else if r < 70 {
        S::el(&[rng.random_range(0..40u64)])
    } else if r < 78 {
        S::E::NEG_ONE
    } else if r < 90 || S::D == 1 {
        S::el(&[rng.random::<u64>() % S::order()])
    } else {
        let c: Vec<u64> = (0..S::D).map(|_| rng.random::<u64>() % S::order()).collect();
        S::el(&c)
    }
}

impl<'a, S: Setup> G<'a, S> {
    fn find(&mut self, v: usize) -> usize {
        let mut r = v;
        while self.cls[r] != r {
            r = self.cls[r];
        }
        self.cls[v] = r;
        r
    }
    fn union(&mut self, a: usize, b: usize) {
        let (ra, rb) = (self.find(a), self.find(b));
        if ra != rb {
            self.cls[rb] = ra;
            self.leafs[ra] += self.leafs[rb];
        }
    }
    fn leaf_count(&mut self, v: usize) -> u32 {
        let r = self.find(v);
        self.leafs[r]
    }
    fn can_connect(&mut self, a: usize, b: usize) -> bool {
        if !self.opts.clean {
            return true;
        }
        let (ra, rb) = (self.find(a), self.find(b));
        ra == rb || self.leafs[ra] + self.leafs[rb] <= 1
    }
    fn push(&mut self, st: Stmt, outs: Vec<S::E>) -> V {
        let first = self.vals.len();
        let k = st.kind();
        let leaf = matches!(k, "const" | "public" | "private" | "decompose_bits" | "decompose_ext");
        let ops = st.operands();
        // builder-level folding can return an operand itself (x+0, x*1, select with equal
        // branches, ...) or a constant (all-constant operands): be conservative about aliasing.
        let all_const = !ops.is_empty() && ops.iter().all(|o| self.kinds[*o] == "const");
        let has_unit_const = ops.iter().any(|o| {
            self.kinds[*o] == "const" && (self.vals[*o] == S::E::ZERO || self.vals[*o] == S::E::ONE)
        });
        let repeated = ops.len() >= 2 && ops.iter().any(|o| ops.iter().filter(|p| *p == o).count() > 1);
        for o in outs {
            let id = self.vals.len();
            self.vals.push(o);
            self.kinds.push(k);
            self.cls.push(id);
            self.leafs.push(if leaf || all_const { 1 } else { 0 });
            if !leaf && !matches!(k, "connect" | "assert_bool" | "assert_zero") && (has_unit_const || repeated || ops.len() <= 1) {
                for op in ops.clone() {
                    self.union(op, id);
                }
            }
        }
        if let Stmt::Connect(a, b) = &st {
            self.union(*a, *b);
        }
        if let Stmt::AssertZero(a) = &st {
            // connect to the zero constant
            let r = self.find(*a);
            self.leafs[r] += 1;
        }
        self.prog.stmts.push(st);
        first
    }
    fn n(&self) -> usize {
        self.vals.len()
    }
    /// Pick a var, biased towards recent ones.
    fn var(&mut self) -> V {
        let n = self.n();
        if n <= 1 {
            return 0;
        }
        if chance(self.rng, 1, 2) {
            let lo = n.saturating_sub(6);
            self.rng.random_range(lo..n)
        } else {
            self.rng.random_range(0..n)
        }
    }
    fn var_where(&mut self, f: impl Fn(&S::E) -> bool) -> Option<V> {
        let c: Vec<V> = (0..self.n()).filter(|i| f(&self.vals[*i])).collect();
        if c.is_empty() {
            None
        } else {
            Some(c[self.rng.random_range(0..c.len())])
        }
    }
    fn new_const(&mut self, v: S::E) -> V {
        self.push(Stmt::Const(S::coeffs(&v)), vec![v])
    }
    fn new_public(&mut self, v: S::E) -> V {
        self.publics.push(v);
        self.push(Stmt::Public, vec![v])
    }
    fn new_private(&mut self, v: S::E) -> V {
        self.privates.push(v);
        self.push(Stmt::Private, vec![v])
    }
    fn new_input(&mut self, v: S::E) -> V {
        let r = self.rng.random_range(0..10u32);
        if r < 6 || !self.opts.privates {
            self.new_public(v)
        } else {
            self.new_private(v)
        }
    }
    fn leaf(&mut self) {
        let from_existing = self.n() > 0 && chance(self.rng, 1, 4);
        let v = if from_existing {
            let i = self.var();
            self.vals[i]
        } else {
            small_val::<S>(self.rng)
        };
        let r = self.rng.random_range(0..10u32);
        if r < 3 {
            self.new_const(v);
        } else {
            self.new_input(v);
        }
    }
    fn binop(&mut self) {
        let a = self.var();
        let b = if chance(self.rng, 1, 8) { a } else { self.var() };
        let (va, vb) = (self.vals[a], self.vals[b]);
        let r = self.rng.random_range(0..100u32);
        if r < 30 {
            self.push(Stmt::Add(a, b), vec![va + vb]);
        } else if r < 50 && !(self.opts.clean && self.kinds[a] == "private") {
            self.push(Stmt::Sub(a, b), vec![va - vb]);
        } else if r < 85 || (self.opts.clean && self.kinds[a] == "private") {
            self.push(Stmt::Mul(a, b), vec![va * vb]);
        } else if self.opts.div && vb != S::E::ZERO {
            self.push(Stmt::Div(a, b), vec![va * vb.inverse()]);
        } else {
            self.push(Stmt::Mul(a, b), vec![va * vb]);
        }
    }
    fn mul_then_add(&mut self) {
        // product feeding an add/sub: the mul-add fusion pattern, single- and multi-use.
        let a = self.var();
        let b = self.var();
        let m = self.push(Stmt::Mul(a, b), vec![self.vals[a] * self.vals[b]]);
        let c = self.var();
        let r = self.rng.random_range(0..4u32);
        let (vm, vc) = (self.vals[m], self.vals[c]);
        match r {
            0 => {
                self.push(Stmt::Add(m, c), vec![vm + vc]);
            }
            1 => {
                self.push(Stmt::Add(c, m), vec![vc + vm]);
            }
            2 => {
                self.push(Stmt::Sub(m, c), vec![vm - vc]);
            }
            _ => {
                if self.opts.clean && self.kinds[c] == "private" {
                    self.push(Stmt::Add(c, m), vec![vc + vm]);
                } else {
                    self.push(Stmt::Sub(c, m), vec![vc - vm]);
                }
            }
        }
        if chance(self.rng, 1, 3) {
            // second use of the product
            let d = self.var();
            let (vm, vd) = (self.vals[m], self.vals[d]);
            self.push(Stmt::Add(m, d), vec![vm + vd]);
        }
    }
    /// Several products created first, then summed up in a chain (sum-of-products style code):
    /// exercises fusion candidates that depend on each other's outputs and positions.
    fn fusion_chain(&mut self) {
        let k = self.rng.random_range(2..5usize);
        let mut prods = vec![];
        for _ in 0..k {
            let (a, b) = (self.var(), self.var());
            let v = self.vals[a] * self.vals[b];
            prods.push(self.push(Stmt::Mul(a, b), vec![v]));
            if chance(self.rng, 1, 4) {
                // an unrelated op in between
                let (e, f) = (self.var(), self.var());
                let v = self.vals[e] + self.vals[f];
                self.push(Stmt::Add(e, f), vec![v]);
            }
        }
        let mut acc = if chance(self.rng, 1, 2) {
            let (e, f) = (self.var(), self.var());
            let v = self.vals[e] + self.vals[f];
            self.push(Stmt::Add(e, f), vec![v])
        } else {
            self.var()
        };
        if chance(self.rng, 1, 2) {
            prods.reverse();
        }
        for p in prods {
            let (vp, va) = (self.vals[p], self.vals[acc]);
            acc = match self.rng.random_range(0..4u32) {
                0 => self.push(Stmt::Add(p, acc), vec![vp + va]),
                1 => self.push(Stmt::Add(acc, p), vec![va + vp]),
                2 => self.push(Stmt::Sub(p, acc), vec![vp - va]),
                _ => self.push(Stmt::Add(p, acc), vec![vp + va]),
            };
        }
    }
    fn mul_add(&mut self) {
        let (a, b, mut c) = (self.var(), self.var(), self.var());
        // operands repeated inside one row (x*y + x, x*x + y, ...) are their own bus shape
        match self.rng.random_range(0..6u32) {
            0 => c = a,
            1 => c = b,
            _ => {}
        }
        let v = self.vals[a] * self.vals[b] + self.vals[c];
        self.push(Stmt::MulAdd(a, b, c), vec![v]);
    }
    fn horner_chain(&mut self) {
        // proper chain: starts from the zero constant, every step takes the previous step's
        // result as accumulator, same alpha, consecutive statements.
        let zero = match (0..self.n()).find(|i| self.kinds[*i] == "const" && self.vals[*i] == S::E::ZERO) {
            Some(z) => z,
            None => self.new_const(S::E::ZERO),
        };
        let alpha = self.var();
        // one chain in three changes its evaluation point along the way and comes back to it
        // (x,y,x / x,y,y,x ..): packed-Horner windows must not span a change of `b`
        let alpha2 = if chance(self.rng, 1, 3) { Some(self.var()) } else { None };
        let k = self.rng.random_range(1..7usize);
        let pairs: Vec<(V, V)> = (0..k).map(|_| (self.var(), self.var())).collect();
        let mut acc = zero;
        for (z, x) in pairs {
            let al = match alpha2 {
                Some(a2) if chance(self.rng, 2, 5) => a2,
                _ => alpha,
            };
            let v = self.vals[acc] * self.vals[al] + self.vals[z] - self.vals[x];
            acc = self.push(Stmt::Horner { acc, alpha: al, z, x }, vec![v]);
        }
    }
    fn horner(&mut self) {
        if self.opts.clean {
            return self.horner_chain();
        }
        let acc = match self.last_horner {
            Some(h) if chance(self.rng, 2, 3) => h,
            _ => self.var(),
        };
        let (alpha, z, x) = (self.var(), self.var(), self.var());
        let v = self.vals[acc] * self.vals[alpha] + self.vals[z] - self.vals[x];
        let h = self.push(Stmt::Horner { acc, alpha, z, x }, vec![v]);
        self.last_horner = Some(h);
        if chance(self.rng, 1, 4) {
            // a sibling step sharing alpha/z/x but with a different accumulator
            let acc2 = self.var();
            let v2 = self.vals[acc2] * self.vals[alpha] + self.vals[z] - self.vals[x];
            self.push(
                Stmt::Horner {
                    acc: acc2,
                    alpha,
                    z,
                    x,
                },
                vec![v2],
            );
        }
    }
    fn select(&mut self) {
        let b = match self.var_where(|v| *v == S::E::ZERO || *v == S::E::ONE) {
            Some(b) if chance(self.rng, 4, 5) => b,
            _ => self.var(),
        };
        let (t, s) = (self.var(), self.var());
        let v = self.vals[s] + self.vals[b] * (self.vals[t] - self.vals[s]);
        self.push(Stmt::Select(b, t, s), vec![v]);
    }
    fn connect(&mut self) {
        let a = self.var();
        let va = self.vals[a];
        let mates: Vec<V> = (0..self.n()).filter(|i| *i != a && self.vals[*i] == va).collect();
        let r = self.rng.random_range(0..10u32);
        let b = if !mates.is_empty() && r < 6 {
            mates[self.rng.random_range(0..mates.len())]
        } else if r < 8 {
            if self.opts.clean && self.leaf_count(a) > 0 {
                return;
            }
            self.new_input(va)
        } else {
            if self.opts.clean && self.leaf_count(a) > 0 {
                return;
            }
            self.new_const(va)
        };
        if !self.can_connect(a, b) {
            return;
        }
        if chance(self.rng, 1, 2) {
            self.push(Stmt::Connect(a, b), vec![]);
        } else {
            self.push(Stmt::Connect(b, a), vec![]);
        }
    }
    fn assert(&mut self) {
        let r = self.rng.random_range(0..3u32);
        if r == 0 {
            if let Some(b) = self.var_where(|v| *v == S::E::ZERO || *v == S::E::ONE) {
                self.push(Stmt::AssertBool(b), vec![]);
                return;
            }
        }
        if r == 1 {
            if let Some(z) = self.var_where(|v| *v == S::E::ZERO) {
                if !self.opts.clean || self.leaf_count(z) == 0 {
                    self.push(Stmt::AssertZero(z), vec![]);
                }
                return;
            }
        }
        // assert_zero(a - b) for an equal-valued pair
        let a = self.var();
        let va = self.vals[a];
        let mates: Vec<V> = (0..self.n()).filter(|i| *i != a && self.vals[*i] == va).collect();
        let b = if mates.is_empty() {
            self.new_input(va)
        } else {
            mates[self.rng.random_range(0..mates.len())]
        };
        if self.opts.clean && (self.kinds[a] == "private" || self.leaf_count(a) > 0 && self.leaf_count(b) > 0) {
            return;
        }
        let d = self.push(Stmt::Sub(a, b), vec![S::E::ZERO]);
        self.push(Stmt::AssertZero(d), vec![]);
    }
    /// A differently shaped expression with the value of the existing var `m` (one operand is a
    /// fresh input solved for): `x + y`, `x * y` or `x - y`.
    #[allow(dead_code)]
    fn equal_valued(&mut self, m: V) -> V {
        let v = self.vals[m];
        let y = self.var();
        let vy = self.vals[y];
        match self.rng.random_range(0..3u32) {
            0 => {
                let x = self.new_input(v - vy);
                self.push(Stmt::Add(x, y), vec![v])
            }
            1 if vy != S::E::ZERO => {
                let x = self.new_input(v * vy.inverse());
                self.push(Stmt::Mul(x, y), vec![v])
            }
            _ => {
                let x = self.new_input(v + vy);
                self.push(Stmt::Sub(x, y), vec![v])
            }
        }
    }
    /// Re-emit the binary statement that defines `r` with its right operand replaced by a fresh
    /// input connected to it (a duplicate only the connect classes reveal). The right operand
    /// must be a computed var in clean programs.
    fn dup_through_alias(&mut self, r: V) -> Option<V> {
        let si = self.prog.stmts.len().checked_sub(1).and_then(|_| {
            // statement index defining var r: vars and statements are not aligned, search backwards
            let mut var = self.vals.len();
            for (i, st) in self.prog.stmts.iter().enumerate().rev() {
                let n = st.n_out(S::D);
                if n == 0 {
                    continue;
                }
                var -= n;
                if r >= var && r < var + n {
                    return Some(i);
                }
            }
            None
        })?;
        let st = self.prog.stmts[si].clone();
        let (a, b) = match st {
            Stmt::Mul(a, b) | Stmt::Add(a, b) | Stmt::Sub(a, b) => (a, b),
            _ => return None,
        };
        if self.opts.clean && self.leaf_count(b) > 0 {
            return None;
        }
        let vb = self.vals[b];
        let b2 = self.new_input(vb);
        self.push(Stmt::Connect(b, b2), vec![]);
        let v = self.vals[r];
        Some(match st {
            Stmt::Mul(..) => self.push(Stmt::Mul(a, b2), vec![v]),
            Stmt::Add(..) => self.push(Stmt::Add(a, b2), vec![v]),
            _ => self.push(Stmt::Sub(a, b2), vec![v]),
        })
    }
    /// Two different operations with equal values, each duplicated through connect-aliased
    /// operands; originals / duplicates are then connected across the two families, so one slot
    /// is shared by duplicates of different canonical ops.
    fn dup_pair_share(&mut self) {
        let (a, x, y) = (self.var(), self.var(), self.var());
        let b = {
            let v = self.vals[x] + self.vals[y];
            self.push(Stmt::Add(x, y), vec![v])
        };
        let m1 = {
            let v = self.vals[a] * self.vals[b];
            self.push(Stmt::Mul(a, b), vec![v])
        };
        // the other family: same value, other shape, right operand computed
        let t1 = {
            let v = self.vals[m1];
            let (p, q) = (self.var(), self.var());
            let yv = self.vals[p] * self.vals[q];
            let yy = self.push(Stmt::Mul(p, q), vec![yv]);
            if self.opts.clean || chance(self.rng, 1, 2) {
                let xx = self.new_input(v - yv);
                self.push(Stmt::Add(xx, yy), vec![v])
            } else {
                let xx = self.new_input(v + yv);
                self.push(Stmt::Sub(xx, yy), vec![v])
            }
        };
        let m2 = self.dup_through_alias(m1);
        let t2 = self.dup_through_alias(t1);
        let ms: Vec<V> = [Some(m1), m2].into_iter().flatten().collect();
        let ts: Vec<V> = [Some(t1), t2].into_iter().flatten().collect();
        let k = self.rng.random_range(1..3usize);
        for _ in 0..k {
            let m = ms[self.rng.random_range(0..ms.len())];
            let t = ts[self.rng.random_range(0..ts.len())];
            // prefer the pair of duplicates
            let (m, t) = if chance(self.rng, 1, 2) { (*ms.last().unwrap(), *ts.last().unwrap()) } else { (m, t) };
            if self.can_connect(m, t) {
                if chance(self.rng, 1, 2) {
                    self.push(Stmt::Connect(m, t), vec![]);
                } else {
                    self.push(Stmt::Connect(t, m), vec![]);
                }
            }
        }
    }
    /// A private input tied to a product that is an op-level duplicate (through a connect-aliased
    /// operand) of an earlier product whose only use is a forward add — de-duplication moves the
    /// private input's slot onto the product that mul-add fusion then wants to absorb.
    fn private_on_duplicate_product(&mut self) {
        if !self.opts.privates {
            return self.binop();
        }
        let (a, p0, q0) = (self.var(), self.var(), self.var());
        // x: computed, so that it may be connected to a fresh input in clean programs too
        let x = {
            let v = self.vals[p0] + self.vals[q0];
            self.push(Stmt::Add(p0, q0), vec![v])
        };
        let m1 = {
            let v = self.vals[a] * self.vals[x];
            self.push(Stmt::Mul(a, x), vec![v])
        };
        let c = self.var();
        let sv = self.vals[m1] + self.vals[c];
        let _s = self.push(Stmt::Add(m1, c), vec![sv]);
        let vx = self.vals[x];
        let x2 = self.new_input(vx);
        self.push(Stmt::Connect(x, x2), vec![]);
        let m2 = {
            let v = self.vals[a] * self.vals[x2];
            if chance(self.rng, 1, 2) { self.push(Stmt::Mul(a, x2), vec![v]) } else { self.push(Stmt::Mul(x2, a), vec![v]) }
        };
        let vm = self.vals[m2];
        let p = self.new_private(vm);
        if chance(self.rng, 1, 2) {
            self.push(Stmt::Connect(m2, p), vec![]);
        } else {
            self.push(Stmt::Connect(p, m2), vec![]);
        }
    }
    /// The exposed output of a non-primitive row (recomposition) tied to a product that is an
    /// op-level duplicate (through a connect-aliased operand) of an earlier product.
    fn npo_output_on_duplicate_product(&mut self) {
        if S::D == 1 {
            return self.binop();
        }
        let (y, p0, q0) = (self.var(), self.var(), self.var());
        let x = {
            let v = self.vals[p0] + self.vals[q0];
            self.push(Stmt::Add(p0, q0), vec![v])
        };
        let _m1 = {
            let v = self.vals[x] * self.vals[y];
            self.push(Stmt::Mul(x, y), vec![v])
        };
        let vx = self.vals[x];
        let x2 = self.new_input(vx);
        self.push(Stmt::Connect(x, x2), vec![]);
        let m2 = {
            let v = self.vals[x2] * self.vals[y];
            self.push(Stmt::Mul(x2, y), vec![v])
        };
        // coefficients of the product's value as fresh inputs, recomposed (NPO row when enabled)
        let cs: Vec<V> = S::coeffs(&self.vals[m2]).iter().map(|c| {
            let v = S::el(&[*c]);
            self.new_input(v)
        }).collect();
        let cv: Vec<S::E> = cs.iter().map(|c| self.vals[*c]).collect();
        let rv = crate::prog::basis_recompose::<S>(&cv);
        let r = self.push(Stmt::RecomposeExt(cs, 0), vec![rv]);
        if chance(self.rng, 1, 2) {
            self.push(Stmt::Connect(r, m2), vec![]);
        } else {
            self.push(Stmt::Connect(m2, r), vec![]);
        }
        let sv = self.vals[r] + self.vals[y];
        self.push(Stmt::Add(r, y), vec![sv]);
    }
    fn duplicate(&mut self) {
        // re-emit an earlier binary statement commutated, or with an operand replaced by a
        // var connected to it (de-duplication through connect).
        let cands: Vec<usize> = self
            .prog
            .stmts
            .iter()
            .enumerate()
            .filter(|(_, s)| matches!(s, Stmt::Mul(..) | Stmt::Add(..) | Stmt::MulAdd(..)))
            .map(|(i, _)| i)
            .collect();
        if cands.is_empty() {
            return self.binop();
        }
        let si = cands[self.rng.random_range(0..cands.len())];
        let st = self.prog.stmts[si].clone();
        let alias = |g: &mut Self, v: V| -> V {
            if chance(g.rng, 1, 2) && !(g.opts.clean && g.leaf_count(v) > 0) {
                let val = g.vals[v];
                let w = g.new_input(val);
                g.push(Stmt::Connect(v, w), vec![]);
                w
            } else {
                v
            }
        };
        match st {
            Stmt::Mul(a, b) => {
                let b2 = alias(self, b);
                let v = self.vals[a] * self.vals[b2];
                if chance(self.rng, 1, 2) {
                    self.push(Stmt::Mul(b2, a), vec![v]);
                } else {
                    self.push(Stmt::Mul(a, b2), vec![v]);
                }
            }
            Stmt::Add(a, b) => {
                let a2 = alias(self, a);
                let v = self.vals[a2] + self.vals[b];
                self.push(Stmt::Add(b, a2), vec![v]);
            }
            Stmt::MulAdd(a, b, c) => {
                let c2 = alias(self, c);
                let v = self.vals[a] * self.vals[b] + self.vals[c2];
                self.push(Stmt::MulAdd(b, a, c2), vec![v]);
            }
            _ => {}
        }
        // often the duplicate's result is then tied to something already defined
        if chance(self.rng, 1, 2) {
            let last = self.n() - 1;
            if self.opts.clean && self.leaf_count(last) > 0 {
                return;
            }
            let v = self.vals[last];
            let w = self.new_input(v);
            self.push(Stmt::Connect(last, w), vec![]);
        }
    }
    fn bits(&mut self) {
        let w = limb_bits::<S>();
        let cand = self.var_where(|v| is_base::<S>(v) && S::coeffs(v)[0] < (1u64 << 20));
        let x = match cand {
            Some(x) if chance(self.rng, 3, 4) => x,
            _ => {
                let v = S::el(&[self.rng.random_range(0..1000u64)]);
                self.new_input(v)
            }
        };
        let val = S::coeffs(&self.vals[x])[0];
        let need = (64 - val.leading_zeros() as usize).max(1);
        let n = (need + self.rng.random_range(0..4usize)).min(w);
        let Some(bits) = canonical_bits::<S>(&self.vals[x], n) else {
            return;
        };
        let first = self.push(Stmt::DecomposeBits(x, n), bits);
        if n > need && chance(self.rng, 1, 3) {
            // the same value decomposed again at a narrower width that still fits: the second
            // decomposition carries its own range claim (x < 2^n2), which a perturbed input breaks
            let n2 = (need + self.rng.random_range(0..2usize)).min(n - 1).max(1);
            if let Some(bits2) = canonical_bits::<S>(&self.vals[x], n2) {
                self.push(Stmt::DecomposeBits(x, n2), bits2);
            }
        }
        if chance(self.rng, 1, 3) {
            // re-pack a prefix of the bits
            let k = self.rng.random_range(1..=n);
            let bs: Vec<V> = (first..first + k).collect();
            let bv: Vec<S::E> = bs.iter().map(|b| self.vals[*b]).collect();
            let v = crate::prog::recompose_bits::<S>(&bv);
            self.push(Stmt::ReconstructBits(bs), vec![v]);
        }
    }
    fn ext(&mut self) {
        if S::D == 1 {
            return self.binop();
        }
        if chance(self.rng, 1, 2) {
            let x = self.var();
            let cs: Vec<S::E> = S::coeffs(&self.vals[x]).iter().map(|c| S::el(&[*c])).collect();
            self.push(Stmt::DecomposeExt(x), cs);
        } else {
            let mut cs = vec![];
            for _ in 0..S::D {
                let c = match self.var_where(|v| is_base::<S>(v)) {
                    Some(c) if chance(self.rng, 2, 3) => c,
                    _ => {
                        let v = S::el(&[self.rng.random_range(0..50u64)]);
                        self.new_input(v)
                    }
                };
                cs.push(c);
            }
            let cv: Vec<S::E> = cs.iter().map(|c| self.vals[*c]).collect();
            let v = crate::prog::basis_recompose::<S>(&cv);
            // mode 1 (`recompose/coeff` table) needs the split-table prover configuration that
            // only the D1-permutation-in-D5 recursion backend uses; the harness registers the
            // standard recompose table, so only the default and the forced-ALU modes are generated.
            // (programs of the split flavour also use mode 1)
            let mode = if self.prog.recompose_cfg().1 {
                [0u8, 1u8, 2u8][self.rng.random_range(0..3usize)]
            } else {
                [0u8, 2u8][self.rng.random_range(0..2usize)]
            };
            let r = self.push(Stmt::RecomposeExt(cs, mode), vec![v]);
            if chance(self.rng, 1, 2) {
                let cs2: Vec<S::E> = S::coeffs(&self.vals[r]).iter().map(|c| S::el(&[*c])).collect();
                self.push(Stmt::DecomposeExt(r), cs2);
            }
        }
    }
    fn misc(&mut self) {
        let r = self.rng.random_range(0..3u32);
        if r == 0 {
            let a = self.var();
            let k = self.rng.random_range(0..4usize);
            let mut v = self.vals[a];
            for _ in 0..k {
                v = v * v;
            }
            self.push(Stmt::ExpPow2(a, k), vec![v]);
        } else if r == 1 {
            let k = self.rng.random_range(0..4usize);
            let vs: Vec<V> = (0..k).map(|_| self.var()).collect();
            let v = vs.iter().fold(S::E::ONE, |a, x| a * self.vals[*x]);
            self.push(Stmt::MulMany(vs), vec![v]);
        } else {
            let k = self.rng.random_range(0..4usize);
            let xs: Vec<V> = (0..k).map(|_| self.var()).collect();
            let ys: Vec<V> = (0..k).map(|_| self.var()).collect();
            let v = xs
                .iter()
                .zip(ys.iter())
                .fold(S::E::ZERO, |a, (x, y)| a + self.vals[*x] * self.vals[*y]);
            self.push(Stmt::Inner(xs, ys), vec![v]);
        }
    }
}

pub fn gen_prog<S: Setup>(rng: &mut SmallRng, opts: &GenOpts) -> Generated<S> {
    let mut g = G::<S> {
        rng,
        prog: Prog {
            stmts: vec![],
            recompose_npo: opts.recompose_npo,
            recompose_variant: 0,
        },
        vals: vec![],
        kinds: vec![],
        publics: vec![],
        privates: vec![],
        last_horner: None,
        opts: opts.clone(),
        cls: vec![],
        leafs: vec![],
    };
    if opts.recompose_npo && opts.recompose_variants && S::D > 1 {
        g.prog.recompose_variant = g.rng.random_range(0..5u32) as u8;
    }
    let n_leaves = g.rng.random_range(1..5usize);
    for _ in 0..n_leaves {
        g.leaf();
    }
    if opts.horner && opts.clean && g.rng.random_range(0..6u32) == 0 {
        // Horner-heavy program: several proper chains separated by at most one other op
        let chains = g.rng.random_range(2..5usize);
        for _ in 0..chains {
            g.horner_chain();
            if chance(g.rng, 2, 3) {
                g.binop();
            }
        }
    }
    while g.prog.stmts.len() < opts.size {
        let r = g.rng.random_range(0..100u32);
        let c = opts.connect_pct;
        if r < c {
            g.connect();
        } else if r < c + 8 {
            g.assert();
        } else if r < c + 16 {
            g.leaf();
        } else if r < c + 21 {
            g.mul_then_add();
        } else if r < c + 26 {
            g.fusion_chain();
        } else if r < c + 32 {
            g.duplicate();
        } else if r < c + 38 {
            g.mul_add();
        } else if r < c + 46 && opts.horner {
            g.horner();
        } else if r < c + 51 {
            g.select();
        } else if r < c + 55 && opts.hints {
            g.bits();
        } else if r < c + 59 && opts.hints {
            g.ext();
        } else if r < c + 63 {
            g.misc();
        } else if r >= 99 {
            g.npo_output_on_duplicate_product();
        } else if r >= 98 {
            g.private_on_duplicate_product();
        } else if r >= 96 {
            g.dup_pair_share();
        } else {
            g.binop();
        }
    }
    // Typical circuit epilogue: tie a few results to fresh public inputs ("expected outputs").
    let k = g.rng.random_range(0..3usize);
    for _ in 0..k {
        let a = g.var();
        if g.opts.clean && g.leaf_count(a) > 0 {
            continue;
        }
        let va = g.vals[a];
        let p = g.new_public(va);
        g.push(Stmt::Connect(a, p), vec![]);
    }
    Generated {
        prog: g.prog,
        publics: g.publics,
        privates: g.privates,
    }
}

/// Perturb one input (public or private) of a satisfying assignment.
pub fn perturb<S: Setup>(
    rng: &mut SmallRng,
    publics: &[S::E],
    privates: &[S::E],
) -> (Vec<S::E>, Vec<S::E>, String) {
    let mut p = publics.to_vec();
    let mut q = privates.to_vec();
    let total = p.len() + q.len();
    if total == 0 {
        return (p, q, "none".into());
    }
    let i = rng.random_range(0..total);
    let delta = if chance(rng, 1, 2) {
        S::E::ONE
    } else {
        small_val::<S>(rng) + S::E::ONE
    };
    let delta = if delta == S::E::ZERO { S::E::ONE } else { delta };
    // one perturbation in five (extension degree >= 3): the constant coefficient stays, the higher
    // coefficients get values that cancel in their sum (d, -d, 0, ..) — an input that only a
    // limb-by-limb base-field check tells apart from the original
    let delta = if S::D >= 3 && chance(rng, 1, 5) {
        let d = 1 + rng.random::<u64>() % 1000;
        let mut c = vec![0u64; S::D];
        c[1] = d;
        c[2] = S::order() - d;
        S::el(&c)
    } else {
        delta
    };
    if i < p.len() {
        p[i] += delta;
        (p, q, format!("public[{i}]"))
    } else {
        q[i - publics.len()] += delta;
        (p, q, format!("private[{}]", i - publics.len()))
    }
}


/// Directed programs: every way a private input `p` can make its FIRST appearance in an ALU row —
/// each operand position of add / sub / mul / div / mul_add (alone or repeated) and `assert_bool`,
/// with the row's result optionally connected back to `p` (the "aliased by out" shapes) and 0..2
/// further reads of `p` — as a 4–8 statement program with a satisfying assignment found by search
/// over small values. Returns (name, program, publics, privates).
pub fn first_use_programs<S: Setup>() -> Vec<(String, Prog, Vec<S::E>, Vec<S::E>)> {
    use crate::prog::{Stmt, eval};
    // vars: 0 = public x, 1 = public y, 2 = private p; the form defines var 3 (if any)
    let (x, y, p) = (0usize, 1usize, 2usize);
    let forms: Vec<(&str, Stmt)> = vec![
        ("add(p,x)", Stmt::Add(p, x)),
        ("add(x,p)", Stmt::Add(x, p)),
        ("add(p,p)", Stmt::Add(p, p)),
        ("sub(p,x)", Stmt::Sub(p, x)),
        ("sub(x,p)", Stmt::Sub(x, p)),
        ("mul(p,x)", Stmt::Mul(p, x)),
        ("mul(x,p)", Stmt::Mul(x, p)),
        ("mul(p,p)", Stmt::Mul(p, p)),
        ("div(p,x)", Stmt::Div(p, x)),
        ("div(x,p)", Stmt::Div(x, p)),
        ("mul_add(p,x,y)", Stmt::MulAdd(p, x, y)),
        ("mul_add(x,p,y)", Stmt::MulAdd(x, p, y)),
        ("mul_add(x,y,p)", Stmt::MulAdd(x, y, p)),
        ("mul_add(p,p,x)", Stmt::MulAdd(p, p, x)),
        ("mul_add(p,x,p)", Stmt::MulAdd(p, x, p)),
        ("mul_add(x,p,p)", Stmt::MulAdd(x, p, p)),
        ("mul_add(p,p,p)", Stmt::MulAdd(p, p, p)),
        ("assert_bool(p)", Stmt::AssertBool(p)),
    ];
    let vals = [0u64, 1, 2, 3, 4, 9];
    let mut out = vec![];
    for (name, body) in forms {
        let defines = !matches!(body, Stmt::AssertBool(_));
        for alias in [false, true] {
            if alias && !defines {
                continue; // assert_bool(p) already has a == c == out == p after optimisation
            }
            for reads in 0..3usize {
                let mut stmts = vec![Stmt::Public, Stmt::Public, Stmt::Private, body.clone()];
                if alias {
                    stmts.push(Stmt::Connect(3, 2));
                }
                for r in 0..reads {
                    stmts.push(if r == 0 { Stmt::Mul(2, 1) } else { Stmt::Add(2, 0) });
                }
                let prog = Prog { stmts, recompose_npo: false, recompose_variant: 0 };
                'search: for &pv in &vals {
                    for &xv in &vals {
                        for &yv in &vals {
                            let (pu, pr) = (vec![S::el(&[xv]), S::el(&[yv])], vec![S::el(&[pv])]);
                            let ev = eval::<S>(&prog, &pu, &pr);
                            if ev.all_hold() && !ev.div_zero {
                                out.push((format!("{name}:alias={alias}:reads={reads}"), prog.clone(), pu, pr));
                                break 'search;
                            }
                        }
                    }
                }
            }
        }
    }
    out
}

/// Programs of the directed `recompose-dense` family: first statement public, then per value
/// `Public, DecomposeExt, Add...` (recognised by shape so that replays classify alike).
pub fn is_recompose_dense(prog: &Prog) -> bool {
    prog.stmts.len() >= 4
        && matches!(prog.stmts[0], Stmt::Public)
        && matches!(prog.stmts[1], Stmt::Public)
        && matches!(prog.stmts[2], Stmt::DecomposeExt(1))
        && prog.stmts.iter().filter(|s| matches!(s, Stmt::DecomposeExt(_))).count() >= 2
        && prog.stmts.iter().all(|s| matches!(s, Stmt::Public | Stmt::DecomposeExt(_) | Stmt::Add(..) | Stmt::RecomposeExt(..) | Stmt::Mul(..)))
        && {
            // no value decomposed twice, no coefficient recomposed twice
            let mut dec: Vec<usize> = prog.stmts.iter().filter_map(|s| if let Stmt::DecomposeExt(x) = s { Some(*x) } else { None }).collect();
            let n = dec.len();
            dec.sort();
            dec.dedup();
            let mut rec: Vec<usize> = prog.stmts.iter().filter_map(|s| if let Stmt::RecomposeExt(cs, _) = s { Some(cs.clone()) } else { None }).flatten().collect();
            let m = rec.len();
            rec.sort();
            rec.dedup();
            dec.len() == n && rec.len() == m
        }
}

/// Recompose tables dense in rows, every flavour / lane count (`Prog::recompose_variant` 0..5):
/// n extension publics are decomposed (one table row each), every coefficient is read by the ALU,
/// and the coefficients of every other value are supplied again as fresh inputs and recomposed (a
/// second kind of row). Returns (variant, n, program, public inputs); empty for D = 1.
pub fn recompose_dense_programs<S: Setup>() -> Vec<(u8, usize, Prog, Vec<S::E>)> {
    let mut out = vec![];
    if !matches!(S::D, 2 | 4 | 5) {
        return out;
    }
    for variant in 0u8..5 {
        for n in [2usize, 3, 5] {
            let mut stmts = vec![Stmt::Public];
            let mut publics = vec![S::el(&[7])];
            let mut acc = 0usize;
            let mut nv = 1usize;
            for k in 0..n {
                let x = nv;
                stmts.push(Stmt::Public);
                nv += 1;
                let cs: Vec<u64> = (0..S::D).map(|i| 1 + (k as u64) + 10u64.pow(i as u32 % 4)).collect();
                publics.push(S::el(&cs));
                stmts.push(Stmt::DecomposeExt(x));
                let coeffs: Vec<usize> = (nv..nv + S::D).collect();
                nv += S::D;
                for cidx in &coeffs {
                    stmts.push(Stmt::Add(acc, *cidx));
                    acc = nv;
                    nv += 1;
                }
                // every other value is also rebuilt from fresh coefficient inputs (a row whose
                // inputs are not hint outputs), through the flavour's own entry point
                if k % 2 == 1 {
                    let fresh: Vec<usize> = (0..S::D)
                        .map(|i| {
                            stmts.push(Stmt::Public);
                            publics.push(S::el(&[cs[i]]));
                            nv += 1;
                            nv - 1
                        })
                        .collect();
                    stmts.push(Stmt::RecomposeExt(fresh, if variant >= 2 { 1 } else { 0 }));
                    let r = nv;
                    nv += 1;
                    stmts.push(Stmt::Mul(r, x));
                    nv += 1;
                }
            }
            out.push((variant, n, Prog { stmts, recompose_npo: true, recompose_variant: variant }, publics));
        }
    }
    out
}
